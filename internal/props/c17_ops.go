package props

import (
	"sort"
	"strconv"
	"strings"

	"github.com/go-python/gpython/py"
	"verif/internal/harness"
)

// Operation tables and reference models of C17 (see c17.go).

const c17None = -99 // "None" in a slice position

func c17newL(items ...int) *c17obj { return &c17obj{L: append([]int{}, items...)} }
func c17newD() *c17obj             { return &c17obj{D: map[string]int{}} }
func c17newS(items ...int) *c17obj {
	o := &c17obj{S: map[int]bool{}}
	for _, i := range items {
		o.S[i] = true
	}
	return o
}

func c17has(l []int, v int) bool {
	for _, x := range l {
		if x == v {
			return true
		}
	}
	return false
}

func c17eqL(a, b []int) bool {
	if len(a) != len(b) {
		return false
	}
	for i := range a {
		if a[i] != b[i] {
			return false
		}
	}
	return true
}

func c17cp(l []int) []int { return append([]int{}, l...) }

// ---------- common operations ----------

func c17apiErrObj(err error) py.Object {
	t, _, _, _ := harness.ExcInfo(err)
	return py.String("<err " + t + ">")
}

func c17b(b bool) py.Object { return py.NewBool(b) }

func c17common() []*c17op {
	return []*c17op{
		{name: "alias", arg: "q=p", src: "q = p", run: func(s *c17st, lg *c17log) string { s.Q = s.P; return "" },
			api: func(e *c17env) error { e.g["q"] = e.g["p"]; return nil }},
		{name: "swap", arg: "", src: "p, q = q, p", run: func(s *c17st, lg *c17log) string { s.P, s.Q = s.Q, s.P; return "" },
			api: func(e *c17env) error { e.g["p"], e.g["q"] = e.g["q"], e.g["p"]; return nil }},
	}
}

// ======================================================================================
// list
// ======================================================================================

// c17idx normalises an item index.
func c17idx(n, i int) (int, bool) {
	if i < 0 {
		i += n
	}
	if i < 0 || i >= n {
		return 0, false
	}
	return i, true
}

// c17slice computes the indices selected by [i:j:k] on a sequence of length n, the way
// the language reference defines slice.indices(); zero reports step 0.
func c17slice(n, i, j, k int) (idx []int, start, stop, step int, zero bool) {
	step = 1
	if k != c17None {
		step = k
	}
	if step == 0 {
		return nil, 0, 0, 0, true
	}
	lo, hi := 0, n // bounds for clamping
	if step < 0 {
		lo, hi = -1, n-1
	}
	bound := func(v, def int) int {
		if v == c17None {
			return def
		}
		if v < 0 {
			v += n
			if v < 0 {
				return lo
			}
			return v
		}
		if v >= n {
			return hi
		}
		return v
	}
	if step > 0 {
		start, stop = bound(i, 0), bound(j, n)
		for x := start; x < stop; x += step {
			idx = append(idx, x)
		}
	} else {
		start, stop = bound(i, n-1), bound(j, -1)
		for x := start; x > stop; x += step {
			idx = append(idx, x)
		}
	}
	return
}

func c17sl(v int) string {
	if v == c17None {
		return ""
	}
	return strconv.Itoa(v)
}

func c17sliceSrc(i, j, k int) string {
	s := c17sl(i) + ":" + c17sl(j)
	if k != c17None {
		s += ":" + strconv.Itoa(k)
	}
	return s
}

func c17oi(v int) py.Object {
	if v == c17None {
		return py.None
	}
	return py.Int(v)
}

func c17pyList(items ...int) *py.List {
	l := py.NewList()
	for _, i := range items {
		l.Append(py.Int(i))
	}
	return l
}

func c17pyTuple(items ...int) py.Tuple {
	t := py.Tuple{}
	for _, i := range items {
		t = append(t, py.Int(i))
	}
	return t
}

func c17lit(items []int) string {
	ss := make([]string, len(items))
	for i, v := range items {
		ss[i] = strconv.Itoa(v)
	}
	return "[" + strings.Join(ss, ", ") + "]"
}

func c17stableSort(l []int, key func(int) int, reverse bool) {
	sort.SliceStable(l, func(a, b int) bool {
		if reverse {
			return key(l[a]) > key(l[b])
		}
		return key(l[a]) < key(l[b])
	})
}

// setP rebinds p to a new object holding items.
func c17setP(s *c17st, items []int) { s.P = c17newL(items...) }
func c17setQ(s *c17st, items []int) { s.Q = c17newL(items...) }

type c17rhs struct {
	name string
	src  func(sl string) string
	// val gives the items the right-hand side yields (evaluated before the assignment) or
	// the exception raised because it is not iterable; n is the length of the slice.
	val func(s *c17st, n int) ([]int, string)
	api func(e *c17env, n int) py.Object
}

func c17ListOps() []*c17op {
	ops := c17common()
	add := func(o *c17op) { ops = append(ops, o) }
	pl := func(e *c17env) *py.List { return e.P().(*py.List) }
	setp := func(e *c17env, o py.Object, err error) error {
		if err == nil {
			e.g["p"] = o
		}
		return err
	}
	setq := func(e *c17env, o py.Object, err error) error {
		if err == nil {
			e.g["q"] = o
		}
		return err
	}

	// --- simplest mutations first (they become the edges of the shortest-path tree)
	for v := 0; v <= 2; v++ {
		v := v
		add(&c17op{name: "append", arg: strconv.Itoa(v), src: "p.append(" + strconv.Itoa(v) + ")",
			run: func(s *c17st, lg *c17log) string { s.P.L = append(s.P.L, v); return "" },
			api: func(e *c17env) error { pl(e).Append(py.Int(v)); return nil }})
	}

	// --- copies: q becomes a distinct object with p's items
	type cp struct {
		arg, src string
		api      func(e *c17env) (py.Object, error)
	}
	for _, c := range []cp{
		{"slice", "q = p[:]", func(e *c17env) (py.Object, error) { return py.GetItem(e.P(), py.NewSlice(py.None, py.None, py.None)) }},
		{"ctor", "q = list(p)", func(e *c17env) (py.Object, error) { return py.Call(py.ListType, py.Tuple{e.P()}, nil) }},
		{"comp", "q = [x for x in p]", nil},
		{"add0", "q = p + []", func(e *c17env) (py.Object, error) { return py.Add(e.P(), py.NewList()) }},
		{"mul1", "q = p * 1", func(e *c17env) (py.Object, error) { return py.Mul(e.P(), py.Int(1)) }},
		{"tuple", "q = list(tuple(p))", func(e *c17env) (py.Object, error) {
			t, err := py.SequenceTuple(e.P())
			if err != nil {
				return nil, err
			}
			return py.SequenceList(t)
		}},
		{"iter", "q = list(iter(p))", func(e *c17env) (py.Object, error) {
			it, err := py.Iter(e.P())
			if err != nil {
				return nil, err
			}
			return py.SequenceList(it)
		}},
		{"map", "q = list(map(lambda x: x, p))", nil},
		{"Copy", "q = p[0:len(p)]", func(e *c17env) (py.Object, error) { return pl(e).Copy(), nil }},
		{"FromItems", "q = list(p[::1])", func(e *c17env) (py.Object, error) { return py.NewListFromItems(pl(e).Items), nil }},
	} {
		c := c
		o := &c17op{name: "copy", arg: c.arg, src: c.src, run: func(s *c17st, lg *c17log) string { c17setQ(s, s.P.L); return "" }}
		if c.api != nil {
			o.api = func(e *c17env) error { r, err := c.api(e); return setq(e, r, err) }
		}
		add(o)
	}
	// derived copies
	add(&c17op{name: "derive", arg: "sorted", src: "q = sorted(p)", run: func(s *c17st, lg *c17log) string {
		l := c17cp(s.P.L)
		sort.Ints(l)
		c17setQ(s, l)
		return ""
	}})
	add(&c17op{name: "derive", arg: "sorted-rev", src: "q = sorted(p, reverse=True)", run: func(s *c17st, lg *c17log) string {
		l := c17cp(s.P.L)
		c17stableSort(l, func(x int) int { return x }, true)
		c17setQ(s, l)
		return ""
	}})
	add(&c17op{name: "derive", arg: "sorted-key", src: "q = sorted(p, key=lambda x: x % 2)", run: func(s *c17st, lg *c17log) string {
		l := c17cp(s.P.L)
		c17stableSort(l, func(x int) int { return x % 2 }, false)
		c17setQ(s, l)
		return ""
	}})
	for _, d := range [][3]int{{c17None, c17None, -1}, {1, c17None, c17None}, {c17None, c17None, 2}, {c17None, -1, c17None}} {
		d := d
		add(&c17op{name: "derive", arg: c17sliceSrc(d[0], d[1], d[2]), src: "q = p[" + c17sliceSrc(d[0], d[1], d[2]) + "]",
			run: func(s *c17st, lg *c17log) string {
				idx, _, _, _, _ := c17slice(len(s.P.L), d[0], d[1], d[2])
				var l []int
				for _, i := range idx {
					l = append(l, s.P.L[i])
				}
				c17setQ(s, l)
				return ""
			},
			api: func(e *c17env) error {
				r, err := py.GetItem(e.P(), py.NewSlice(c17oi(d[0]), c17oi(d[1]), c17oi(d[2])))
				return setq(e, r, err)
			}})
	}
	// through a tuple (py/tuple.go: slicing, concatenation, repetition, comparison)
	add(&c17op{name: "derive", arg: "tuple[::-1]", src: "q = list(tuple(p)[::-1])", run: func(s *c17st, lg *c17log) string {
		l := []int{}
		for i := len(s.P.L) - 1; i >= 0; i-- {
			l = append(l, s.P.L[i])
		}
		c17setQ(s, l)
		return ""
	}})
	add(&c17op{name: "derive", arg: "tuple[1:]+tuple[:1]", src: "q = list(tuple(p)[1:] + tuple(p)[:1])", run: func(s *c17st, lg *c17log) string {
		l := []int{}
		if len(s.P.L) > 0 {
			l = append(c17cp(s.P.L[1:]), s.P.L[0])
		}
		c17setQ(s, l)
		return ""
	}})
	add(&c17op{name: "derive", arg: "tuple*2[:n]", src: "q = list((tuple(p) * 2)[1:len(p) + 1])", run: func(s *c17st, lg *c17log) string {
		l := []int{}
		if len(s.P.L) > 0 {
			l = append(c17cp(s.P.L[1:]), s.P.L[0])
		}
		c17setQ(s, l)
		return ""
	}})
	add(&c17op{name: "eq-tuple", arg: "", src: "vh.log('L', tuple(p) == tuple(q), tuple(p) != tuple(q), tuple(p) == tuple(p), len(tuple(p)), 1 in tuple(p), tuple(p) == p)",
		run: func(s *c17st, lg *c17log) string {
			e := c17eqL(s.P.L, s.Q.L)
			lg.L(e, !e, true, len(s.P.L), c17has(s.P.L, 1), false)
			return ""
		}})
	// displays
	for _, lit := range [][]int{{}, {1}, {2, 0, 1}} {
		lit := lit
		add(&c17op{name: "new", arg: c17lit(lit), src: "p = " + c17lit(lit),
			run: func(s *c17st, lg *c17log) string { c17setP(s, lit); return "" },
			api: func(e *c17env) error { e.g["p"] = c17pyList(lit...); return nil }})
	}
	// concatenation / repetition into a new object
	add(&c17op{name: "concat", arg: "p=p+q", src: "p = p + q",
		run: func(s *c17st, lg *c17log) string { c17setP(s, append(c17cp(s.P.L), s.Q.L...)); return "" },
		api: func(e *c17env) error { r, err := py.Add(e.P(), e.Q()); return setp(e, r, err) }})
	add(&c17op{name: "concat", arg: "p=q+p", src: "p = q + p",
		run: func(s *c17st, lg *c17log) string { c17setP(s, append(c17cp(s.Q.L), s.P.L...)); return "" },
		api: func(e *c17env) error { r, err := py.Add(e.Q(), e.P()); return setp(e, r, err) }})
	add(&c17op{name: "concat", arg: "q=p+p", src: "q = p + p",
		run: func(s *c17st, lg *c17log) string { c17setQ(s, append(c17cp(s.P.L), s.P.L...)); return "" },
		api: func(e *c17env) error { r, err := py.Add(e.P(), e.P()); return setq(e, r, err) }})
	add(&c17op{name: "concat", arg: "p=p+(1,)", src: "p = p + (1,)",
		run: func(s *c17st, lg *c17log) string { return "TypeError" },
		api: func(e *c17env) error { r, err := py.Add(e.P(), c17pyTuple(1)); return setp(e, r, err) }})
	add(&c17op{name: "concat", arg: "p=p+5", src: "p = p + 5",
		run: func(s *c17st, lg *c17log) string { return "TypeError" },
		api: func(e *c17env) error { r, err := py.Add(e.P(), py.Int(5)); return setp(e, r, err) }})
	rep := func(l []int, n int) []int {
		var out []int
		for i := 0; i < n; i++ {
			out = append(out, l...)
		}
		return out
	}
	for _, n := range []int{-1, 0, 2, 3} {
		n := n
		add(&c17op{name: "repeat", arg: "p=p*" + strconv.Itoa(n), src: "p = p * " + strconv.Itoa(n),
			run: func(s *c17st, lg *c17log) string { c17setP(s, rep(s.P.L, n)); return "" },
			api: func(e *c17env) error { r, err := py.Mul(e.P(), py.Int(n)); return setp(e, r, err) }})
	}
	add(&c17op{name: "repeat", arg: "p=2*p", src: "p = 2 * p",
		run: func(s *c17st, lg *c17log) string { c17setP(s, rep(s.P.L, 2)); return "" },
		api: func(e *c17env) error { r, err := py.Mul(py.Int(2), e.P()); return setp(e, r, err) }})

	// --- extend / +=
	type ext struct {
		arg  string
		val  func(s *c17st) ([]int, string)
		api  func(e *c17env) py.Object
		noeq bool // not usable with += (syntax) -- unused
	}
	fixed := func(items ...int) func(s *c17st) ([]int, string) {
		return func(s *c17st) ([]int, string) { return items, "" }
	}
	exts := []ext{
		{"q", func(s *c17st) ([]int, string) { return c17cp(s.Q.L), "" }, func(e *c17env) py.Object { return e.Q() }, false},
		{"p", func(s *c17st) ([]int, string) { return c17cp(s.P.L), "" }, func(e *c17env) py.Object { return e.P() }, false},
		{"[1, 2]", fixed(1, 2), func(e *c17env) py.Object { return c17pyList(1, 2) }, false},
		{"[2]", fixed(2), func(e *c17env) py.Object { return c17pyList(2) }, false},
		{"[]", fixed(), func(e *c17env) py.Object { return c17pyList() }, false},
		{"(2, 1)", fixed(2, 1), func(e *c17env) py.Object { return c17pyTuple(2, 1) }, false},
		{"(0,)", fixed(0), func(e *c17env) py.Object { return c17pyTuple(0) }, false},
		{"()", fixed(), func(e *c17env) py.Object { return c17pyTuple() }, false},
		{"range(2)", fixed(0, 1), nil, false},
		{"(x + 1 for x in [0, 1])", fixed(1, 2), nil, false},
		{"{1}", fixed(1), func(e *c17env) py.Object { return py.NewSetFromItems([]py.Object{py.Int(1)}) }, false},
		{"iter([0, 2])", fixed(0, 2), nil, false},
		{"tuple(q)", func(s *c17st) ([]int, string) { return c17cp(s.Q.L), "" }, nil, false},
		{"5", func(s *c17st) ([]int, string) { return nil, "TypeError" }, func(e *c17env) py.Object { return py.Int(5) }, false},
		{"None", func(s *c17st) ([]int, string) { return nil, "TypeError" }, func(e *c17env) py.Object { return py.None }, false},
	}
	for _, x := range exts {
		x := x
		o := &c17op{name: "extend", arg: x.arg, src: "p.extend(" + x.arg + ")", run: func(s *c17st, lg *c17log) string {
			items, exc := x.val(s)
			if exc != "" {
				return exc
			}
			s.P.L = append(s.P.L, items...)
			return ""
		}}
		if x.api != nil {
			o.api = func(e *c17env) error {
				m, err := py.GetAttrString(e.P(), "extend")
				if err != nil {
					return err
				}
				_, err = py.Call(m, py.Tuple{x.api(e)}, nil)
				return err
			}
		}
		add(o)
	}
	// List.Extend / List.ExtendSequence are the Go API forms of extend
	add(&c17op{name: "extend", arg: "q[:]", src: "p.extend(q[:])", run: func(s *c17st, lg *c17log) string {
		s.P.L = append(s.P.L, c17cp(s.Q.L)...)
		return ""
	}, api: func(e *c17env) error {
		q := e.Q().(*py.List)
		pl(e).Extend(append([]py.Object{}, q.Items...))
		return nil
	}})
	add(&c17op{name: "extend", arg: "list(q)", src: "p.extend(list(q))", run: func(s *c17st, lg *c17log) string {
		s.P.L = append(s.P.L, c17cp(s.Q.L)...)
		return ""
	}, api: func(e *c17env) error { return pl(e).ExtendSequence(e.Q()) }})
	for _, x := range exts {
		x := x
		if x.arg == "None" {
			continue
		}
		o := &c17op{name: "iadd", arg: x.arg, src: "p += " + x.arg, run: func(s *c17st, lg *c17log) string {
			items, exc := x.val(s)
			if exc != "" {
				return exc
			}
			s.P.L = append(s.P.L, items...)
			return ""
		}}
		if x.api != nil {
			o.api = func(e *c17env) error { r, err := py.IAdd(e.P(), x.api(e)); return setp(e, r, err) }
		}
		add(o)
	}
	for _, n := range []int{-1, 0, 1, 2, 3} {
		n := n
		add(&c17op{name: "imul", arg: strconv.Itoa(n), src: "p *= " + strconv.Itoa(n),
			run: func(s *c17st, lg *c17log) string { s.P.L = rep(c17cp(s.P.L), n); return "" },
			api: func(e *c17env) error { r, err := py.IMul(e.P(), py.Int(n)); return setp(e, r, err) }})
	}

	// --- item set / del / get at every index
	for i := -5; i <= 4; i++ {
		i := i
		for v := 0; v <= 2; v++ {
			v := v
			add(&c17op{name: "setitem", arg: strconv.Itoa(i) + "=" + strconv.Itoa(v), src: "p[" + strconv.Itoa(i) + "] = " + strconv.Itoa(v),
				run: func(s *c17st, lg *c17log) string {
					x, ok := c17idx(len(s.P.L), i)
					if !ok {
						return "IndexError"
					}
					s.P.L[x] = v
					return ""
				},
				api: func(e *c17env) error { _, err := py.SetItem(e.P(), py.Int(i), py.Int(v)); return err }})
		}
		add(&c17op{name: "delitem", arg: strconv.Itoa(i), src: "del p[" + strconv.Itoa(i) + "]",
			run: func(s *c17st, lg *c17log) string {
				x, ok := c17idx(len(s.P.L), i)
				if !ok {
					return "IndexError"
				}
				s.P.L = append(s.P.L[:x], s.P.L[x+1:]...)
				return ""
			},
			api: func(e *c17env) error { _, err := py.DelItem(e.P(), py.Int(i)); return err }})
		add(&c17op{name: "getitem", arg: strconv.Itoa(i), src: "vh.log('L', p[" + strconv.Itoa(i) + "])",
			run: func(s *c17st, lg *c17log) string {
				x, ok := c17idx(len(s.P.L), i)
				if !ok {
					return "IndexError"
				}
				lg.L(s.P.L[x])
				return ""
			},
			api: func(e *c17env) error {
				r, err := py.GetItem(e.P(), py.Int(i))
				if err == nil {
					e.L(r)
				}
				return err
			}})
	}
	add(&c17op{name: "setitem", arg: "0=q[-1]", src: "p[0] = q[-1]", run: func(s *c17st, lg *c17log) string {
		if len(s.Q.L) == 0 || len(s.P.L) == 0 {
			return "IndexError"
		}
		s.P.L[0] = s.Q.L[len(s.Q.L)-1]
		return ""
	}})

	// --- slices
	vals := []int{c17None, -1, 0, 1, 2}
	type ijk struct{ i, j, k int }
	var slices []ijk
	for _, k := range []int{c17None, 1, -1, 2} {
		for _, i := range vals {
			for _, j := range vals {
				slices = append(slices, ijk{i, j, k})
			}
		}
	}
	slices = append(slices, ijk{c17None, c17None, 0}, ijk{1, 2, 0})
	plainRHS := []c17rhs{
		{"[]", func(string) string { return "[]" }, func(s *c17st, n int) ([]int, string) { return nil, "" }, func(e *c17env, n int) py.Object { return c17pyList() }},
		{"[2]", func(string) string { return "[2]" }, func(s *c17st, n int) ([]int, string) { return []int{2}, "" }, func(e *c17env, n int) py.Object { return c17pyList(2) }},
		{"[1, 2]", func(string) string { return "[1, 2]" }, func(s *c17st, n int) ([]int, string) { return []int{1, 2}, "" }, func(e *c17env, n int) py.Object { return c17pyList(1, 2) }},
		{"(0,)", func(string) string { return "(0,)" }, func(s *c17st, n int) ([]int, string) { return []int{0}, "" }, func(e *c17env, n int) py.Object { return c17pyTuple(0) }},
		{"q", func(string) string { return "q" }, func(s *c17st, n int) ([]int, string) { return c17cp(s.Q.L), "" }, func(e *c17env, n int) py.Object { return e.Q() }},
		{"p", func(string) string { return "p" }, func(s *c17st, n int) ([]int, string) { return c17cp(s.P.L), "" }, func(e *c17env, n int) py.Object { return e.P() }},
		{"5", func(string) string { return "5" }, func(s *c17st, n int) ([]int, string) { return nil, "TypeError" }, func(e *c17env, n int) py.Object { return py.Int(5) }},
	}
	pool := []int{2, 1, 0, 2, 1}
	extRHS := []c17rhs{
		{"fit", func(sl string) string { return "[2, 1, 0, 2][:len(p[" + sl + "])]" }, func(s *c17st, n int) ([]int, string) { return pool[:n], "" },
			func(e *c17env, n int) py.Object { return c17pyList(pool[:n]...) }},
		{"over", func(sl string) string { return "[2, 1, 0, 2, 1][:len(p[" + sl + "]) + 1]" }, func(s *c17st, n int) ([]int, string) { return pool[:n+1], "" },
			func(e *c17env, n int) py.Object { return c17pyList(pool[:n+1]...) }},
		plainRHS[4], plainRHS[5],
	}
	for _, sl := range slices {
		sl := sl
		ss := c17sliceSrc(sl.i, sl.j, sl.k)
		mk := func() *py.Slice { return py.NewSlice(c17oi(sl.i), c17oi(sl.j), c17oi(sl.k)) }
		add(&c17op{name: "getslice", arg: ss, src: "vh.log('L', p[" + ss + "])",
			run: func(s *c17st, lg *c17log) string {
				idx, _, _, _, zero := c17slice(len(s.P.L), sl.i, sl.j, sl.k)
				if zero {
					return "ValueError"
				}
				out := []int{}
				for _, i := range idx {
					out = append(out, s.P.L[i])
				}
				lg.L(out)
				return ""
			},
			api: func(e *c17env) error {
				r, err := py.GetItem(e.P(), mk())
				if err == nil {
					e.L(r)
				}
				return err
			}})
		// the same read on a tuple with p's items (py/tuple.go); it depends on p alone, so it
		// is part of the alphabet only in the states where q is p
		add(&c17op{name: "tuple-getslice", arg: ss, src: "vh.log('L', tuple(p)[" + ss + "])",
			when: func(s *c17st) bool { return s.P == s.Q },
			run: func(s *c17st, lg *c17log) string {
				idx, _, _, _, zero := c17slice(len(s.P.L), sl.i, sl.j, sl.k)
				if zero {
					return "ValueError"
				}
				out := c17tup{}
				for _, i := range idx {
					out = append(out, s.P.L[i])
				}
				lg.L(out)
				return ""
			},
			api: func(e *c17env) error {
				t, err := py.SequenceTuple(e.P())
				if err != nil {
					return err
				}
				r, err := py.GetItem(t, mk())
				if err == nil {
					e.L(r)
				}
				return err
			}})
		add(&c17op{name: "delslice", arg: ss, src: "del p[" + ss + "]",
			run: func(s *c17st, lg *c17log) string {
				idx, _, _, _, zero := c17slice(len(s.P.L), sl.i, sl.j, sl.k)
				if zero {
					return "ValueError"
				}
				gone := map[int]bool{}
				for _, i := range idx {
					gone[i] = true
				}
				out := []int{}
				for i, v := range s.P.L {
					if !gone[i] {
						out = append(out, v)
					}
				}
				s.P.L = out
				return ""
			},
			api: func(e *c17env) error { _, err := py.DelItem(e.P(), mk()); return err }})
		rhss := plainRHS
		plain := sl.k == c17None || sl.k == 1
		if !plain {
			rhss = extRHS
		}
		if sl.k == 0 {
			rhss = plainRHS[1:2]
		}
		for _, r := range rhss {
			r := r
			add(&c17op{name: "setslice", arg: ss + "=" + r.name, src: "p[" + ss + "] = " + r.src(ss),
				run: func(s *c17st, lg *c17log) string {
					idx, start, stop, _, zero := c17slice(len(s.P.L), sl.i, sl.j, sl.k)
					if zero {
						return "ValueError"
					}
					items, exc := r.val(s, len(idx))
					if exc != "" {
						return exc
					}
					if plain {
						if stop < start {
							stop = start
						}
						out := append([]int{}, s.P.L[:start]...)
						out = append(out, items...)
						out = append(out, s.P.L[stop:]...)
						s.P.L = out
						return ""
					}
					if len(items) != len(idx) {
						return "ValueError"
					}
					for n, i := range idx {
						s.P.L[i] = items[n]
					}
					return ""
				},
				api: func(e *c17env) error {
					n := 0
					if !plain && sl.k != 0 {
						if g, err := py.GetItem(e.P(), mk()); err == nil {
							n = len(g.(*py.List).Items)
						}
					}
					_, err := py.SetItem(e.P(), mk(), r.api(e, n))
					return err
				}})
		}
	}
	// extended slice with a non-iterable right-hand side
	add(&c17op{name: "setslice", arg: "::2=5", src: "p[::2] = 5", run: func(s *c17st, lg *c17log) string { return "TypeError" },
		api: func(e *c17env) error {
			_, err := py.SetItem(e.P(), py.NewSlice(py.None, py.None, py.Int(2)), py.Int(5))
			return err
		}})

	// --- sort
	type srt struct {
		arg, src string
		key      func(int) int
		rev      bool
		kw       func() py.StringDict
	}
	id := func(x int) int { return x }
	for _, c := range []srt{
		{"", "p.sort()", id, false, func() py.StringDict { return py.StringDict{} }},
		{"reverse", "p.sort(reverse=True)", id, true, func() py.StringDict { return py.StringDict{"reverse": py.True} }},
		{"reverse=False", "p.sort(reverse=False)", id, false, func() py.StringDict { return py.StringDict{"reverse": py.False} }},
		{"key=None", "p.sort(key=None)", id, false, func() py.StringDict { return py.StringDict{"key": py.None} }},
		{"key=neg", "p.sort(key=lambda x: -x)", func(x int) int { return -x }, false, nil},
		{"key=mod2", "p.sort(key=lambda x: x % 2)", func(x int) int { return x % 2 }, false, nil},
		{"key=mod2,reverse", "p.sort(key=lambda x: x % 2, reverse=True)", func(x int) int { return x % 2 }, true, nil},
		{"key=const", "p.sort(key=lambda x: 0)", func(x int) int { return 0 }, false, nil},
	} {
		c := c
		o := &c17op{name: "sort", arg: c.arg, src: c.src, run: func(s *c17st, lg *c17log) string {
			c17stableSort(s.P.L, c.key, c.rev)
			return ""
		}}
		if c.kw != nil {
			o.api = func(e *c17env) error { return py.SortInPlace(pl(e), c.kw(), "sort") }
		}
		add(o)
	}
	add(&c17op{name: "sort", arg: "positional", src: "p.sort(None)", run: func(s *c17st, lg *c17log) string { return "TypeError" }})

	// --- iteration while mutating (a list iterator is live: it indexes the list at each step)
	add(&c17op{name: "iter", arg: "append-while", src: "for x in p:\n    if len(p) < 4:\n        p.append(x)",
		run: func(s *c17st, lg *c17log) string {
			for i := 0; i < len(s.P.L); i++ {
				if len(s.P.L) < 4 {
					s.P.L = append(s.P.L, s.P.L[i])
				}
			}
			return ""
		}})
	add(&c17op{name: "iter", arg: "del-front-while", src: "for x in p:\n    vh.log('L', x)\n    del p[0]",
		run: func(s *c17st, lg *c17log) string {
			for i := 0; i < len(s.P.L); i++ {
				lg.L(s.P.L[i])
				s.P.L = s.P.L[1:]
			}
			return ""
		}})
	add(&c17op{name: "iter", arg: "del-last-while", src: "for x in p:\n    vh.log('L', x)\n    del p[-1]",
		run: func(s *c17st, lg *c17log) string {
			for i := 0; i < len(s.P.L); i++ {
				lg.L(s.P.L[i])
				s.P.L = s.P.L[:len(s.P.L)-1]
			}
			return ""
		}})
	add(&c17op{name: "iter", arg: "copy-into-q", src: "for x in p:\n    if len(q) < 4:\n        q.append(x)",
		run: func(s *c17st, lg *c17log) string {
			for i := 0; i < len(s.P.L); i++ {
				if len(s.Q.L) < 4 {
					s.Q.L = append(s.Q.L, s.P.L[i])
				}
			}
			return ""
		}})
	add(&c17op{name: "iter", arg: "bump", src: "for i, x in enumerate(p):\n    p[i] = (x + 1) % 3",
		run: func(s *c17st, lg *c17log) string {
			for i := 0; i < len(s.P.L); i++ {
				s.P.L[i] = (s.P.L[i] + 1) % 3
			}
			return ""
		}})
	add(&c17op{name: "iter", arg: "shift", src: "for x in p:\n    p[0] = x\n    vh.log('L', x)",
		run: func(s *c17st, lg *c17log) string {
			for i := 0; i < len(s.P.L); i++ {
				x := s.P.L[i]
				s.P.L[0] = x
				lg.L(x)
			}
			return ""
		}})
	add(&c17op{name: "iter", arg: "append-after-iter", src: "it = iter(p)\nif len(p) < 4:\n    p.append(2)\nvh.log('L', [x for x in it])",
		run: func(s *c17st, lg *c17log) string {
			if len(s.P.L) < 4 {
				s.P.L = append(s.P.L, 2)
			}
			lg.L(c17cp(s.P.L))
			return ""
		}})
	add(&c17op{name: "iter", arg: "clear-after-next", src: "it = iter(p)\nx0 = next(it, None)\ndel p[:]\nvh.log('L', x0, [x for x in it])",
		run: func(s *c17st, lg *c17log) string {
			var x0 interface{}
			if len(s.P.L) > 0 {
				x0 = s.P.L[0]
			}
			s.P.L = []int{}
			lg.L(x0, []int{})
			return ""
		}})
	add(&c17op{name: "iter", arg: "replace-after-next", src: "it = iter(p)\nx0 = next(it, None)\np[:] = [1, 2]\nvh.log('L', x0, [x for x in it])",
		run: func(s *c17st, lg *c17log) string {
			var x0 interface{}
			rest := []int{} // an exhausted iterator stays exhausted
			if len(s.P.L) > 0 {
				x0 = s.P.L[0]
				rest = []int{2}
			}
			s.P.L = []int{1, 2}
			lg.L(x0, rest)
			return ""
		}})
	// the source of a whole-list slice assignment stays alive and is looked at after the list
	// was changed in place: the list must have taken the items, not the storage
	for _, sv := range []struct {
		name, lit string
		val       func() interface{}
	}{
		{"tuple", "(2, 1, 0)", func() interface{} { return c17tup{2, 1, 0} }},
		{"list", "[2, 1, 0]", func() interface{} { return []int{2, 1, 0} }},
	} {
		for _, sl := range []string{":", "0:", ":9", "-9:"} {
			for _, mu := range []struct {
				src string
				res []int
			}{{"p[0] = 1", []int{1, 1, 0}}, {"p.sort()", []int{0, 1, 2}}, {"del p[0]", []int{1, 0}}, {"p[::-1] = list(p)", []int{0, 1, 2}}, {"p[1], p[2] = p[2], p[1]", []int{2, 0, 1}}} {
				sv, mu := sv, mu
				add(&c17op{name: "kept-source", arg: sv.name + "[" + sl + "];" + mu.src, src: "t = " + sv.lit + "\np[" + sl + "] = t\n" + mu.src + "\nvh.log('L', t)",
					run: func(s *c17st, lg *c17log) string {
						s.P.L = append([]int{}, mu.res...)
						lg.L(sv.val())
						return ""
					}})
			}
		}
		sv := sv
		add(&c17op{name: "kept-source", arg: sv.name + "-into-two-lists", src: "t = " + sv.lit + "\np[:] = t\nq = []\nq[:] = t\np[0] = 1\nq.sort()\nvh.log('L', t, p, q)",
			run: func(s *c17st, lg *c17log) string {
				s.P.L = []int{1, 1, 0}
				c17setQ(s, []int{0, 1, 2})
				lg.L(sv.val(), []int{1, 1, 0}, []int{0, 1, 2})
				return ""
			}})
	}
	add(&c17op{name: "iter", arg: "comp-while-append", src: "q = [x for x in p if len(p) >= 4 or p.append(x) is None]",
		run: func(s *c17st, lg *c17log) string {
			out := []int{}
			for i := 0; i < len(s.P.L); i++ {
				x := s.P.L[i]
				if len(s.P.L) < 4 {
					s.P.L = append(s.P.L, x)
				}
				out = append(out, x)
			}
			c17setQ(s, out)
			return ""
		}})

	// --- builtins over the list
	add(&c17op{name: "builtins", arg: "", src: "vh.log('L', sum(p), tuple(p), sorted(p), list(zip(p, q)), list(enumerate(p)), all(p), any(p), bool(p), not p, list(map(lambda x: x + 1, p)), list(filter(None, p)))",
		run: func(s *c17st, lg *c17log) string {
			if lg == nil {
				return ""
			}
			sum, all, any := 0, true, false
			tup := c17tup{}
			var zp, en, mp, fl []interface{}
			zp, en, mp, fl = []interface{}{}, []interface{}{}, []interface{}{}, []interface{}{}
			for i, x := range s.P.L {
				sum += x
				tup = append(tup, x)
				if x == 0 {
					all = false
				} else {
					any = true
					fl = append(fl, x)
				}
				if i < len(s.Q.L) {
					zp = append(zp, c17tup{x, s.Q.L[i]})
				}
				en = append(en, c17tup{i, x})
				mp = append(mp, x+1)
			}
			so := c17cp(s.P.L)
			sort.Ints(so)
			lg.L(sum, tup, so, zp, en, all, any, len(s.P.L) > 0, len(s.P.L) == 0, mp, fl)
			return ""
		}})
	add(&c17op{name: "builtins", arg: "minmax", src: "vh.log('L', min(p), max(p))",
		run: func(s *c17st, lg *c17log) string {
			if len(s.P.L) == 0 {
				return "ValueError"
			}
			mn, mx := s.P.L[0], s.P.L[0]
			for _, x := range s.P.L {
				if x < mn {
					mn = x
				}
				if x > mx {
					mx = x
				}
			}
			lg.L(mn, mx)
			return ""
		}})
	add(&c17op{name: "unpack", arg: "a,b", src: "a, b = p\nvh.log('L', a, b)",
		run: func(s *c17st, lg *c17log) string {
			if len(s.P.L) != 2 {
				return "ValueError"
			}
			lg.L(s.P.L[0], s.P.L[1])
			return ""
		}})
	add(&c17op{name: "unpack", arg: "a,*b", src: "a, *b = p\nvh.log('L', a, b)",
		run: func(s *c17st, lg *c17log) string {
			if len(s.P.L) < 1 {
				return "ValueError"
			}
			lg.L(s.P.L[0], c17cp(s.P.L[1:]))
			return ""
		}})
	add(&c17op{name: "eq-lit", arg: "", src: "vh.log('L', p == [0, 1], p != [0, 1], [0, 1] == p, p == [], p == (0, 1), p == 5, p != 5, p == list(q), p == tuple(p))",
		run: func(s *c17st, lg *c17log) string {
			e := c17eqL(s.P.L, []int{0, 1})
			lg.L(e, !e, e, len(s.P.L) == 0, false, false, true, c17eqL(s.P.L, s.Q.L), false)
			return ""
		}})

	// --- undefined by the language: host panics only
	add(&c17op{name: "sort-mutating-key", arg: "append", probe: true, src: "def k(x):\n    if len(p) < 8:\n        p.append(0)\n    return x\ntry:\n    p.sort(key=k)\nexcept ValueError:\n    pass",
		run: func(s *c17st, lg *c17log) string { return "" }})
	add(&c17op{name: "sort-mutating-key", arg: "del", probe: true, src: "def k(x):\n    del p[:1]\n    return x\ntry:\n    p.sort(key=k)\nexcept (ValueError, IndexError):\n    pass",
		run: func(s *c17st, lg *c17log) string { return "" }})
	add(&c17op{name: "sort-raising-key", arg: "1//x", probe: true, src: "try:\n    p.sort(key=lambda x: 1 // x)\nexcept ZeroDivisionError:\n    pass",
		run: func(s *c17st, lg *c17log) string { return "" }})
	return ops
}

func c17ListKind() *c17kind {
	enc := func(o *c17obj) string {
		var b strings.Builder
		for _, v := range o.L {
			b.WriteByte(byte('0' + v))
		}
		return b.String()
	}
	one := func(v string) string {
		return "len(" + v + "), " + v + ", [x for x in " + v + "], [" + v + "[i] for i in range(len(" + v + "))], (0 in " + v + ", 1 in " + v + ", 2 in " + v + ", 7 in " + v + ")"
	}
	mone := func(o *c17obj) []interface{} {
		return []interface{}{len(o.L), c17cp(o.L), c17cp(o.L), c17cp(o.L), c17tup{c17has(o.L, 0), c17has(o.L, 1), c17has(o.L, 2), c17has(o.L, 7)}}
	}
	aone := func(o py.Object) []py.Object {
		var out []py.Object
		n, err := py.Len(o)
		if err != nil {
			n = c17apiErrObj(err)
		}
		out = append(out, n, o)
		it := py.NewList()
		if i, err := py.Iter(o); err == nil {
			for {
				x, err := py.Next(i)
				if err != nil {
					break
				}
				it.Append(x)
			}
		}
		out = append(out, it)
		ix := py.NewList()
		if ni, ok := n.(py.Int); ok {
			for i := 0; i < int(ni); i++ {
				x, err := py.GetItem(o, py.Int(i))
				if err != nil {
					x = c17apiErrObj(err)
				}
				ix.Append(x)
			}
		}
		out = append(out, ix)
		in := py.Tuple{}
		for _, v := range []int{0, 1, 2, 7} {
			f, err := py.SequenceContains(o, py.Int(v))
			if err != nil {
				in = append(in, c17apiErrObj(err))
			} else {
				in = append(in, c17b(f))
			}
		}
		return append(out, in)
	}
	k := &c17kind{
		name:     "list",
		lightSrc: "vh.log('T', p, q, vh17.same(p, q))",
		light:    func(s *c17st) string { return c17f(c17tup{"T", c17cp(s.P.L), c17cp(s.Q.L), s.P == s.Q}) },
		build: func(s *c17st) py.StringDict {
			mk := func(o *c17obj) py.Object { return c17pyList(o.L...) }
			g := py.StringDict{"p": mk(s.P)}
			if s.P == s.Q {
				g["q"] = g["p"]
			} else {
				g["q"] = mk(s.Q)
			}
			return g
		},
		initSrc: "import vh17\np = []\nq = []",
		init:    func() *c17st { return &c17st{P: c17newL(), Q: c17newL()} },
		enc:     enc,
		ops:     c17ListOps(),
		obsSrc: func(tag string) string {
			return "vh.log('" + tag + "', " + one("p") + ", " + one("q") + ", p == q, p != q, q == p, vh17.same(p, q), p is q)"
		},
		obs: func(tag string, s *c17st) string {
			t := c17tup{tag}
			t = append(t, mone(s.P)...)
			t = append(t, mone(s.Q)...)
			eq := c17eqL(s.P.L, s.Q.L)
			t = append(t, eq, !eq, eq, s.P == s.Q, s.P == s.Q)
			return c17f(t)
		},
		postSrc: "for i in range(len(p)):\n    p[i] = 7\np.append(8)\nvh.log('A', p, q, vh17.same(p, q))\nfor i in range(len(q)):\n    q[i] = 5\nq.append(6)\nvh.log('B', p, q, vh17.same(p, q))",
		post: func(s *c17st) []string {
			var out []string
			for i := range s.P.L {
				s.P.L[i] = 7
			}
			s.P.L = append(s.P.L, 8)
			out = append(out, c17f(c17tup{"A", c17cp(s.P.L), c17cp(s.Q.L), s.P == s.Q}))
			for i := range s.Q.L {
				s.Q.L[i] = 5
			}
			s.Q.L = append(s.Q.L, 6)
			out = append(out, c17f(c17tup{"B", c17cp(s.P.L), c17cp(s.Q.L), s.P == s.Q}))
			return out
		},
		apiObs: func(tag string, e *c17env) string {
			t := py.Tuple{py.String(tag)}
			t = append(t, aone(e.P())...)
			t = append(t, aone(e.Q())...)
			t = append(t, c17apiCmp(e)...)
			return harness.Canon(t)
		},
		apiPost: func(e *c17env) []string {
			var out []string
			step := func(tag string, o py.Object, fill, app int) {
				if l, ok := o.(*py.List); ok {
					n := len(l.Items)
					for i := 0; i < n; i++ {
						py.SetItem(l, py.Int(i), py.Int(fill))
					}
					l.Append(py.Int(app))
				}
				out = append(out, harness.Canon(py.Tuple{py.String(tag), e.P(), e.Q(), c17b(c17Same(e.P(), e.Q()))}))
			}
			step("A", e.P(), 7, 8)
			step("B", e.Q(), 5, 6)
			return out
		},
	}
	return k
}

func c17apiCmp(e *c17env) []py.Object {
	f := func(o py.Object, err error) py.Object {
		if err != nil {
			return c17apiErrObj(err)
		}
		return o
	}
	same := c17b(c17Same(e.P(), e.Q()))
	return []py.Object{f(py.Eq(e.P(), e.Q())), f(py.Ne(e.P(), e.Q())), f(py.Eq(e.Q(), e.P())), same, same}
}

// ======================================================================================
// dict
// ======================================================================================

var c17keys = []string{"a", "b", "c"}

func c17eqD(a, b map[string]int) bool {
	if len(a) != len(b) {
		return false
	}
	for k, v := range a {
		if w, ok := b[k]; !ok || w != v {
			return false
		}
	}
	return true
}

func c17cpD(d map[string]int) map[string]int {
	n := map[string]int{}
	for k, v := range d {
		n[k] = v
	}
	return n
}

func c17pyDict(d map[string]int) py.StringDict {
	o := py.NewStringDict()
	for k, v := range d {
		o[k] = py.Int(v)
	}
	return o
}

func c17DictOps() []*c17op {
	ops := c17common()
	add := func(o *c17op) { ops = append(ops, o) }
	setq := func(e *c17env, o py.Object, err error) error {
		if err == nil {
			e.g["q"] = o
		}
		return err
	}
	for _, k := range c17keys {
		k := k
		for v := 0; v <= 2; v++ {
			v := v
			add(&c17op{name: "setitem", arg: k + "=" + strconv.Itoa(v), src: "p['" + k + "'] = " + strconv.Itoa(v),
				run: func(s *c17st, lg *c17log) string { s.P.D[k] = v; return "" },
				api: func(e *c17env) error { _, err := py.SetItem(e.P(), py.String(k), py.Int(v)); return err }})
		}
	}
	for _, k := range c17keys {
		k := k
		add(&c17op{name: "delitem", arg: k, src: "del p['" + k + "']",
			run: func(s *c17st, lg *c17log) string {
				if _, ok := s.P.D[k]; !ok {
					return "KeyError"
				}
				delete(s.P.D, k)
				return ""
			},
			api: func(e *c17env) error { _, err := py.DelItem(e.P(), py.String(k)); return err }})
		add(&c17op{name: "getitem", arg: k, src: "vh.log('L', p['" + k + "'])",
			run: func(s *c17st, lg *c17log) string {
				v, ok := s.P.D[k]
				if !ok {
					return "KeyError"
				}
				lg.L(v)
				return ""
			},
			api: func(e *c17env) error {
				r, err := py.GetItem(e.P(), py.String(k))
				if err == nil {
					e.L(r)
				}
				return err
			}})
	}
	type cp struct {
		arg, src string
		api      func(e *c17env) (py.Object, error)
	}
	for _, c := range []cp{
		{"ctor", "q = dict(p)", func(e *c17env) (py.Object, error) { return py.Call(py.StringDictType, py.Tuple{e.P()}, nil) }},
		{"ctor-items", "q = dict(p.items())", nil},
		{"ctor-kwargs", "q = dict(**p)", func(e *c17env) (py.Object, error) {
			return py.Call(py.StringDictType, nil, e.P().(py.StringDict))
		}},
		{"ctor-pairs", "q = dict([(k, p[k]) for k in p])", nil},
		{"comp-items", "q = {k: v for k, v in p.items()}", nil},
		{"comp-keys", "q = {k: p[k] for k in p}", nil},
		{"Copy", "q = dict(p.items())", func(e *c17env) (py.Object, error) { return e.P().(py.StringDict).Copy(), nil }},
	} {
		c := c
		o := &c17op{name: "copy", arg: c.arg, src: c.src, run: func(s *c17st, lg *c17log) string {
			s.Q = &c17obj{D: c17cpD(s.P.D)}
			return ""
		}}
		if c.api != nil {
			o.api = func(e *c17env) error { r, err := c.api(e); return setq(e, r, err) }
		}
		add(o)
	}
	add(&c17op{name: "derive", arg: "dict(p, b=1)", src: "q = dict(p, b=1)", run: func(s *c17st, lg *c17log) string {
		d := c17cpD(s.P.D)
		d["b"] = 1
		s.Q = &c17obj{D: d}
		return ""
	}, api: func(e *c17env) error {
		r, err := py.Call(py.StringDictType, py.Tuple{e.P()}, py.StringDict{"b": py.Int(1)})
		return setq(e, r, err)
	}})
	add(&c17op{name: "derive", arg: "dict(c=2)", src: "q = dict(c=2)", run: func(s *c17st, lg *c17log) string {
		s.Q = &c17obj{D: map[string]int{"c": 2}}
		return ""
	}})
	for _, lit := range []map[string]int{{}, {"a": 0, "c": 2}, {"b": 1}} {
		lit := lit
		var parts []string
		for _, k := range c17keys {
			if v, ok := lit[k]; ok {
				parts = append(parts, "'"+k+"': "+strconv.Itoa(v))
			}
		}
		src := "{" + strings.Join(parts, ", ") + "}"
		add(&c17op{name: "new", arg: src, src: "p = " + src,
			run: func(s *c17st, lg *c17log) string { s.P = &c17obj{D: c17cpD(lit)}; return "" },
			api: func(e *c17env) error { e.g["p"] = c17pyDict(lit); return nil }})
	}
	upd := func(s *c17st, lg *c17log) string {
		for k, v := range s.Q.D {
			s.P.D[k] = v
		}
		return ""
	}
	add(&c17op{name: "loop", arg: "update-keys", src: "for k in q:\n    p[k] = q[k]", run: upd})
	add(&c17op{name: "loop", arg: "update-items", src: "for k, v in q.items():\n    p[k] = v", run: upd})
	add(&c17op{name: "loop", arg: "update-keys()", src: "for k in q.keys():\n    p[k] = q.get(k)", run: upd})
	bump := func(s *c17st, lg *c17log) string {
		for k, v := range s.P.D {
			s.P.D[k] = (v + 1) % 3
		}
		return ""
	}
	add(&c17op{name: "loop", arg: "bump", src: "for k in p:\n    p[k] = (p[k] + 1) % 3", run: bump})
	add(&c17op{name: "loop", arg: "bump-items", src: "for k, v in p.items():\n    p[k] = (v + 1) % 3", run: bump})
	clear := func(s *c17st, lg *c17log) string {
		for k := range s.P.D {
			delete(s.P.D, k)
		}
		return ""
	}
	add(&c17op{name: "loop", arg: "clear-sorted", src: "for k in sorted(p):\n    del p[k]", run: clear})
	add(&c17op{name: "loop", arg: "clear-list", src: "for k in list(p):\n    del p[k]", run: clear})
	add(&c17op{name: "loop", arg: "clear-keys", src: "for k in list(p.keys()):\n    del p[k]", run: clear})
	add(&c17op{name: "loop", arg: "sum-values", src: "t = 0\nfor v in p.values():\n    t += v\nvh.log('L', t)", run: func(s *c17st, lg *c17log) string {
		t := 0
		for _, v := range s.P.D {
			t += v
		}
		lg.L(t)
		return ""
	}})
	// size change during iteration: RuntimeError (CPython) or a completed snapshot iteration
	add(&c17op{name: "loop", arg: "grow-while", okNoExc: "RuntimeError", src: "for k in p:\n    p['c'] = 0",
		run: func(s *c17st, lg *c17log) string {
			if len(s.P.D) == 0 {
				return ""
			}
			_, had := s.P.D["c"]
			s.P.D["c"] = 0
			if had {
				return ""
			}
			return "RuntimeError"
		}})
	add(&c17op{name: "loop", arg: "shrink-while", okNoExc: "RuntimeError", src: "for k in p:\n    if 'a' in p:\n        del p['a']",
		run: func(s *c17st, lg *c17log) string {
			if _, had := s.P.D["a"]; !had {
				return ""
			}
			delete(s.P.D, "a")
			return "RuntimeError"
		}})
	add(&c17op{name: "eq-lit", arg: "", src: "vh.log('L', p == {'a': 0}, p != {'a': 0}, {'a': 0} == p, p == {}, p == 5, p != 5, p == [], p == dict(q.items()))",
		run: func(s *c17st, lg *c17log) string {
			e := c17eqD(s.P.D, map[string]int{"a": 0})
			lg.L(e, !e, e, len(s.P.D) == 0, false, true, false, c17eqD(s.P.D, s.Q.D))
			return ""
		}})
	add(&c17op{name: "builtins", arg: "", src: "vh.log('L', bool(p), not p, sum(p.values()), sorted(p, reverse=True), any(p.values()), list(sorted(p.keys())))",
		run: func(s *c17st, lg *c17log) string {
			if lg == nil {
				return ""
			}
			sum, any := 0, false
			for _, v := range s.P.D {
				sum += v
				if v != 0 {
					any = true
				}
			}
			ks := s.P.dkeys()
			rev := []string{}
			for i := len(ks) - 1; i >= 0; i-- {
				rev = append(rev, ks[i])
			}
			lg.L(len(s.P.D) > 0, len(s.P.D) == 0, sum, rev, any, ks)
			return ""
		}})
	add(&c17op{name: "builtins", arg: "minmax", src: "vh.log('L', min(p), max(p), max(p.values()))",
		run: func(s *c17st, lg *c17log) string {
			if len(s.P.D) == 0 {
				return "ValueError"
			}
			ks := s.P.dkeys()
			mx := 0
			for _, v := range s.P.D {
				if v > mx {
					mx = v
				}
			}
			lg.L(ks[0], ks[len(ks)-1], mx)
			return ""
		}})
	// keys()/values()/items() are views: they follow the dict, have a len and can be iterated again
	add(&c17op{name: "view", arg: "live", noPath: true, src: "ks = p.keys()\nvs = p.values()\nits = p.items()\np['c'] = 0\nvh.log('L', sorted(ks), sorted(vs), sorted(k for k, v in its))",
		run: func(s *c17st, lg *c17log) string {
			s.P.D["c"] = 0
			vs := []int{}
			for _, v := range s.P.D {
				vs = append(vs, v)
			}
			sort.Ints(vs)
			lg.L(s.P.dkeys(), vs, s.P.dkeys())
			return ""
		}})
	add(&c17op{name: "view", arg: "len", noPath: true, src: "vh.log('L', len(p.keys()), len(p.values()), len(p.items()))",
		run: func(s *c17st, lg *c17log) string { lg.L(len(s.P.D), len(s.P.D), len(s.P.D)); return "" }})
	add(&c17op{name: "view", arg: "twice", noPath: true, src: "ks = p.keys()\nvh.log('L', sorted(ks), sorted(ks))",
		run: func(s *c17st, lg *c17log) string { lg.L(s.P.dkeys(), s.P.dkeys()); return "" }})
	add(&c17op{name: "get", arg: "arity", src: "p.get()", run: func(s *c17st, lg *c17log) string { return "TypeError" }})
	return ops
}

func c17DictKind() *c17kind {
	enc := func(o *c17obj) string {
		var b strings.Builder
		for _, k := range o.dkeys() {
			b.WriteString(k + strconv.Itoa(o.D[k]))
		}
		return b.String()
	}
	one := func(v string) string {
		return "len(" + v + "), " + v + ", (sorted(" + v + "), sorted(" + v + ".keys()), sorted(" + v + ".values()), {k: x for k, x in " + v + ".items()}), " +
			"(" + v + ".get('a'), " + v + ".get('b'), " + v + ".get('c'), " + v + ".get('z'), " + v + ".get('a', 9), " + v + ".get('z', 9)), " +
			"('a' in " + v + ", 'b' in " + v + ", 'c' in " + v + ", 'z' in " + v + ")"
	}
	get := func(d map[string]int, k string, def interface{}) interface{} {
		if v, ok := d[k]; ok {
			return v
		}
		return def
	}
	has := func(d map[string]int, k string) bool { _, ok := d[k]; return ok }
	mone := func(o *c17obj) []interface{} {
		ks := o.dkeys()
		vs := []int{}
		for _, v := range o.D {
			vs = append(vs, v)
		}
		sort.Ints(vs)
		d := o.D
		return []interface{}{len(d), c17cpD(d), c17tup{ks, ks, vs, c17cpD(d)},
			c17tup{get(d, "a", nil), get(d, "b", nil), get(d, "c", nil), get(d, "z", nil), get(d, "a", 9), get(d, "z", 9)},
			c17tup{has(d, "a"), has(d, "b"), has(d, "c"), has(d, "z")}}
	}
	aone := func(o py.Object) []py.Object {
		var out []py.Object
		n, err := py.Len(o)
		if err != nil {
			n = c17apiErrObj(err)
		}
		out = append(out, n, o)
		d, _ := o.(py.StringDict)
		ks := []string{}
		for k := range d {
			ks = append(ks, k)
		}
		sort.Strings(ks)
		kl, vl := py.NewList(), []int{}
		rebuilt := py.NewStringDict()
		for _, k := range ks {
			kl.Append(py.String(k))
			v, err := py.GetItem(o, py.String(k))
			if err == nil {
				rebuilt[k] = v
				if i, ok := v.(py.Int); ok {
					vl = append(vl, int(i))
				}
			}
		}
		sort.Ints(vl)
		out = append(out, py.Tuple{kl, kl, c17pyList(vl...), rebuilt})
		g := py.Tuple{}
		for _, c := range []struct {
			k   string
			def py.Object
		}{{"a", py.None}, {"b", py.None}, {"c", py.None}, {"z", py.None}, {"a", py.Int(9)}, {"z", py.Int(9)}} {
			v, err := py.GetItem(o, py.String(c.k))
			if err != nil {
				v = c.def
			}
			g = append(g, v)
		}
		out = append(out, g)
		in := py.Tuple{}
		for _, k := range []string{"a", "b", "c", "z"} {
			f, err := py.SequenceContains(o, py.String(k))
			if err != nil {
				in = append(in, c17apiErrObj(err))
			} else {
				in = append(in, c17b(f))
			}
		}
		return append(out, in)
	}
	return &c17kind{
		name:     "dict",
		lightSrc: "vh.log('T', p, q, vh17.same(p, q))",
		light:    func(s *c17st) string { return c17f(c17tup{"T", c17cpD(s.P.D), c17cpD(s.Q.D), s.P == s.Q}) },
		build: func(s *c17st) py.StringDict {
			mk := func(o *c17obj) py.Object {
				d := py.NewStringDict()
				for _, k := range o.dkeys() {
					py.SetItem(d, py.String(k), py.Int(o.D[k]))
				}
				return d
			}
			g := py.StringDict{"p": mk(s.P)}
			if s.P == s.Q {
				g["q"] = g["p"]
			} else {
				g["q"] = mk(s.Q)
			}
			return g
		},
		initSrc: "import vh17\np = {}\nq = {}",
		init:    func() *c17st { return &c17st{P: c17newD(), Q: c17newD()} },
		enc:     enc,
		ops:     c17DictOps(),
		obsSrc: func(tag string) string {
			return "vh.log('" + tag + "', " + one("p") + ", " + one("q") + ", p == q, p != q, q == p, vh17.same(p, q), p is q)"
		},
		obs: func(tag string, s *c17st) string {
			t := c17tup{tag}
			t = append(t, mone(s.P)...)
			t = append(t, mone(s.Q)...)
			eq := c17eqD(s.P.D, s.Q.D)
			t = append(t, eq, !eq, eq, s.P == s.Q, s.P == s.Q)
			return c17f(t)
		},
		postSrc: "for k in sorted(p):\n    p[k] = 7\np['y'] = 8\nvh.log('A', p, q, vh17.same(p, q))\nfor k in sorted(q):\n    q[k] = 5\nq['z'] = 6\nvh.log('B', p, q, vh17.same(p, q))",
		post: func(s *c17st) []string {
			var out []string
			for k := range s.P.D {
				s.P.D[k] = 7
			}
			s.P.D["y"] = 8
			out = append(out, c17f(c17tup{"A", c17cpD(s.P.D), c17cpD(s.Q.D), s.P == s.Q}))
			for k := range s.Q.D {
				s.Q.D[k] = 5
			}
			s.Q.D["z"] = 6
			out = append(out, c17f(c17tup{"B", c17cpD(s.P.D), c17cpD(s.Q.D), s.P == s.Q}))
			return out
		},
		apiObs: func(tag string, e *c17env) string {
			t := py.Tuple{py.String(tag)}
			t = append(t, aone(e.P())...)
			t = append(t, aone(e.Q())...)
			t = append(t, c17apiCmp(e)...)
			return harness.Canon(t)
		},
		apiPost: func(e *c17env) []string {
			var out []string
			step := func(tag string, o py.Object, fill int, nk string, nv int) {
				if d, ok := o.(py.StringDict); ok {
					ks := []string{}
					for k := range d {
						ks = append(ks, k)
					}
					for _, k := range ks {
						py.SetItem(d, py.String(k), py.Int(fill))
					}
					py.SetItem(d, py.String(nk), py.Int(nv))
				}
				out = append(out, harness.Canon(py.Tuple{py.String(tag), e.P(), e.Q(), c17b(c17Same(e.P(), e.Q()))}))
			}
			step("A", e.P(), 7, "y", 8)
			step("B", e.Q(), 5, "z", 6)
			return out
		},
	}
}

// ======================================================================================
// set
// ======================================================================================

func c17eqS(a, b map[int]bool) bool {
	if len(a) != len(b) {
		return false
	}
	for k := range a {
		if !b[k] {
			return false
		}
	}
	return true
}

func c17setOp(op string, a, b map[int]bool) map[int]bool {
	out := map[int]bool{}
	switch op {
	case "&":
		for k := range a {
			if b[k] {
				out[k] = true
			}
		}
	case "|":
		for k := range a {
			out[k] = true
		}
		for k := range b {
			out[k] = true
		}
	case "-":
		for k := range a {
			if !b[k] {
				out[k] = true
			}
		}
	case "^":
		for k := range a {
			if !b[k] {
				out[k] = true
			}
		}
		for k := range b {
			if !a[k] {
				out[k] = true
			}
		}
	}
	return out
}

func c17pySet(items ...int) *py.Set {
	s := py.NewSet()
	for _, i := range items {
		s.Add(py.Int(i))
	}
	return s
}

func c17SetOps() []*c17op {
	ops := c17common()
	add := func(o *c17op) { ops = append(ops, o) }
	setp := func(e *c17env, o py.Object, err error) error {
		if err == nil {
			e.g["p"] = o
		}
		return err
	}
	setq := func(e *c17env, o py.Object, err error) error {
		if err == nil {
			e.g["q"] = o
		}
		return err
	}
	for v := 0; v <= 2; v++ {
		v := v
		add(&c17op{name: "add", arg: strconv.Itoa(v), src: "p.add(" + strconv.Itoa(v) + ")",
			run: func(s *c17st, lg *c17log) string { s.P.S[v] = true; return "" },
			api: func(e *c17env) error { e.P().(*py.Set).Add(py.Int(v)); return nil }})
	}
	type cp struct {
		arg, src string
		api      func(e *c17env) (py.Object, error)
	}
	for _, c := range []cp{
		{"ctor", "q = set(p)", func(e *c17env) (py.Object, error) { return py.Call(py.SetType, py.Tuple{e.P()}, nil) }},
		{"comp", "q = {x for x in p}", nil},
		{"ctor-sorted", "q = set(sorted(p))", nil},
		{"ctor-gen", "q = set(x for x in p)", nil},
		{"ctor-tuple", "q = set(tuple(p))", nil},
		{"or-empty", "q = p | set()", func(e *c17env) (py.Object, error) { return py.Or(e.P(), py.NewSet()) }},
		{"and-self", "q = p & p", func(e *c17env) (py.Object, error) { return py.And(e.P(), e.P()) }},
		{"sub-empty", "q = p - set()", func(e *c17env) (py.Object, error) { return py.Sub(e.P(), py.NewSet()) }},
		{"SequenceSet", "q = set(iter(p))", func(e *c17env) (py.Object, error) { return py.SequenceSet(e.P()) }},
	} {
		c := c
		o := &c17op{name: "copy", arg: c.arg, src: c.src, run: func(s *c17st, lg *c17log) string {
			s.Q = s.P.clone()
			return ""
		}}
		if c.api != nil {
			o.api = func(e *c17env) error { r, err := c.api(e); return setq(e, r, err) }
		}
		add(o)
	}
	for _, lit := range []struct {
		src   string
		items []int
	}{{"set()", nil}, {"{0, 2}", []int{0, 2}}, {"set([1, 1, 2])", []int{1, 2}}, {"set((0,))", []int{0}}, {"{1, 1}", []int{1}}} {
		lit := lit
		add(&c17op{name: "new", arg: lit.src, src: "p = " + lit.src,
			run: func(s *c17st, lg *c17log) string { s.P = c17newS(lit.items...); return "" }})
	}
	type bin struct {
		sym  string
		api  func(a, b py.Object) (py.Object, error)
		iapi func(a, b py.Object) (py.Object, error)
	}
	for _, b := range []bin{{"&", py.And, py.IAnd}, {"|", py.Or, py.IOr}, {"-", py.Sub, py.ISub}, {"^", py.Xor, py.IXor}} {
		b := b
		add(&c17op{name: "binop", arg: "p=p" + b.sym + "q", src: "p = p " + b.sym + " q",
			run: func(s *c17st, lg *c17log) string { s.P = &c17obj{S: c17setOp(b.sym, s.P.S, s.Q.S)}; return "" },
			api: func(e *c17env) error { r, err := b.api(e.P(), e.Q()); return setp(e, r, err) }})
		add(&c17op{name: "binop", arg: "p=q" + b.sym + "p", src: "p = q " + b.sym + " p",
			run: func(s *c17st, lg *c17log) string { s.P = &c17obj{S: c17setOp(b.sym, s.Q.S, s.P.S)}; return "" },
			api: func(e *c17env) error { r, err := b.api(e.Q(), e.P()); return setp(e, r, err) }})
		add(&c17op{name: "binop", arg: "q=p" + b.sym + "p", src: "q = p " + b.sym + " p",
			run: func(s *c17st, lg *c17log) string { s.Q = &c17obj{S: c17setOp(b.sym, s.P.S, s.P.S)}; return "" },
			api: func(e *c17env) error { r, err := b.api(e.P(), e.P()); return setq(e, r, err) }})
		for _, lit := range []struct {
			src   string
			items []int
		}{{"{1}", []int{1}}, {"{0, 2}", []int{0, 2}}} {
			lit := lit
			add(&c17op{name: "binop", arg: "p=p" + b.sym + lit.src, src: "p = p " + b.sym + " " + lit.src,
				run: func(s *c17st, lg *c17log) string {
					s.P = &c17obj{S: c17setOp(b.sym, s.P.S, c17newS(lit.items...).S)}
					return ""
				},
				api: func(e *c17env) error { r, err := b.api(e.P(), c17pySet(lit.items...)); return setp(e, r, err) }})
			add(&c17op{name: "iop", arg: "p" + b.sym + "=" + lit.src, src: "p " + b.sym + "= " + lit.src,
				run: func(s *c17st, lg *c17log) string {
					s.P.S = c17setOp(b.sym, s.P.S, c17newS(lit.items...).S)
					return ""
				},
				api: func(e *c17env) error { r, err := b.iapi(e.P(), c17pySet(lit.items...)); return setp(e, r, err) }})
		}
		add(&c17op{name: "iop", arg: "p" + b.sym + "=q", src: "p " + b.sym + "= q",
			run: func(s *c17st, lg *c17log) string { s.P.S = c17setOp(b.sym, s.P.S, s.Q.S); return "" },
			api: func(e *c17env) error { r, err := b.iapi(e.P(), e.Q()); return setp(e, r, err) }})
		add(&c17op{name: "iop", arg: "p" + b.sym + "=p", src: "p " + b.sym + "= p",
			run: func(s *c17st, lg *c17log) string { s.P.S = c17setOp(b.sym, s.P.S, s.P.S); return "" },
			api: func(e *c17env) error { r, err := b.iapi(e.P(), e.P()); return setp(e, r, err) }})
		add(&c17op{name: "binop", arg: "p=p" + b.sym + "[1]", src: "p = p " + b.sym + " [1]",
			run: func(s *c17st, lg *c17log) string { return "TypeError" },
			api: func(e *c17env) error { r, err := b.api(e.P(), c17pyList(1)); return setp(e, r, err) }})
		add(&c17op{name: "binop", arg: "p=p" + b.sym + "5", src: "p = p " + b.sym + " 5",
			run: func(s *c17st, lg *c17log) string { return "TypeError" },
			api: func(e *c17env) error { r, err := b.api(e.P(), py.Int(5)); return setp(e, r, err) }})
	}
	// scalars that are equal (and hash equal) to a member are the same element: adding one
	// changes nothing and the set keeps the member it had
	for _, c := range []struct {
		src string
		v   int
		obj py.Object
	}{{"True", 1, py.True}, {"1.0", 1, py.Float(1)}, {"False", 0, py.False}, {"2.0", 2, py.Float(2)}} {
		c := c
		add(&c17op{name: "add-equal", arg: c.src, src: "p.add(" + c.src + ")", noPath: true,
			when: func(s *c17st) bool { return s.P.S[c.v] },
			run:  func(s *c17st, lg *c17log) string { return "" },
			api:  func(e *c17env) error { e.P().(*py.Set).Add(c.obj); return nil }})
	}
	add(&c17op{name: "new-equal", arg: "{1, True, 1.0}", src: "p = {1, True, 1.0}", noPath: true,
		run: func(s *c17st, lg *c17log) string { s.P = c17newS(1); return "" }})
	add(&c17op{name: "new-equal", arg: "set([0, False, 0.0, 2])", src: "p = set([0, False, 0.0, 2])", noPath: true,
		run: func(s *c17st, lg *c17log) string { s.P = c17newS(0, 2); return "" }})
	add(&c17op{name: "in-equal", arg: "", src: "vh.log('L', True in p, 1.0 in p, False in p, 0.0 in p, 2.0 in p, 2.5 in p, None in p, 'a' in p)",
		run: func(s *c17st, lg *c17log) string {
			lg.L(s.P.S[1], s.P.S[1], s.P.S[0], s.P.S[0], s.P.S[2], false, false, false)
			return ""
		}})
	add(&c17op{name: "loop", arg: "copy-into-q", src: "for x in p:\n    q.add(x)",
		run: func(s *c17st, lg *c17log) string {
			for k := range s.P.S {
				s.Q.S[k] = true
			}
			return ""
		}})
	add(&c17op{name: "loop", arg: "shift-sorted", src: "for x in sorted(p):\n    p.add((x + 1) % 3)",
		run: func(s *c17st, lg *c17log) string {
			for _, x := range s.P.setv() {
				s.P.S[(x+1)%3] = true
			}
			return ""
		}})
	add(&c17op{name: "loop", arg: "re-add", src: "for x in p:\n    p.add(x)", run: func(s *c17st, lg *c17log) string { return "" }})
	add(&c17op{name: "loop", arg: "grow-while", okNoExc: "RuntimeError", src: "for x in p:\n    p.add(2)",
		run: func(s *c17st, lg *c17log) string {
			if len(s.P.S) == 0 {
				return ""
			}
			had := s.P.S[2]
			s.P.S[2] = true
			if had {
				return ""
			}
			return "RuntimeError"
		}})
	add(&c17op{name: "eq-lit", arg: "", src: "vh.log('L', p == {0, 1}, p != {0, 1}, {0, 1} == p, p == set(), p == 5, p != 5, p == [0, 1], p == set(sorted(q)))",
		run: func(s *c17st, lg *c17log) string {
			e := c17eqS(s.P.S, map[int]bool{0: true, 1: true})
			lg.L(e, !e, e, len(s.P.S) == 0, false, true, false, c17eqS(s.P.S, s.Q.S))
			return ""
		}})
	add(&c17op{name: "builtins", arg: "", src: "vh.log('L', bool(p), not p, sum(p), sorted(p, reverse=True), any(p), all(p), list(sorted(p)), tuple(sorted(p)))",
		run: func(s *c17st, lg *c17log) string {
			if lg == nil {
				return ""
			}
			sv := []int(s.P.setv())
			sum, any, all := 0, false, true
			rev := []int{}
			tup := c17tup{}
			for i := len(sv) - 1; i >= 0; i-- {
				rev = append(rev, sv[i])
			}
			for _, v := range sv {
				sum += v
				tup = append(tup, v)
				if v != 0 {
					any = true
				} else {
					all = false
				}
			}
			lg.L(len(sv) > 0, len(sv) == 0, sum, rev, any, all, append([]int{}, sv...), tup)
			return ""
		}})
	add(&c17op{name: "builtins", arg: "minmax", src: "vh.log('L', min(p), max(p))",
		run: func(s *c17st, lg *c17log) string {
			sv := s.P.setv()
			if len(sv) == 0 {
				return "ValueError"
			}
			lg.L(sv[0], sv[len(sv)-1])
			return ""
		}})
	return ops
}

func c17SetKind() *c17kind {
	enc := func(o *c17obj) string {
		var b strings.Builder
		for _, v := range o.setv() {
			b.WriteByte(byte('0' + v))
		}
		return b.String()
	}
	one := func(v string) string {
		return "len(" + v + "), " + v + ", sorted(" + v + "), sorted(x for x in " + v + "), (0 in " + v + ", 1 in " + v + ", 2 in " + v + ", 7 in " + v + ")"
	}
	mone := func(o *c17obj) []interface{} {
		sv := o.setv()
		l := append([]int{}, sv...)
		return []interface{}{len(o.S), sv, l, l, c17tup{o.S[0], o.S[1], o.S[2], o.S[7]}}
	}
	aone := func(o py.Object) []py.Object {
		var out []py.Object
		n, err := py.Len(o)
		if err != nil {
			n = c17apiErrObj(err)
		}
		out = append(out, n, o)
		var vs []int
		if i, err := py.Iter(o); err == nil {
			for {
				x, err := py.Next(i)
				if err != nil {
					break
				}
				if v, ok := x.(py.Int); ok {
					vs = append(vs, int(v))
				}
			}
		}
		sort.Ints(vs)
		out = append(out, c17pyList(vs...), c17pyList(vs...))
		in := py.Tuple{}
		for _, v := range []int{0, 1, 2, 7} {
			f, err := py.SequenceContains(o, py.Int(v))
			if err != nil {
				in = append(in, c17apiErrObj(err))
			} else {
				in = append(in, c17b(f))
			}
		}
		return append(out, in)
	}
	return &c17kind{
		name:     "set",
		lightSrc: "vh.log('T', p, q, vh17.same(p, q))",
		light:    func(s *c17st) string { return c17f(c17tup{"T", s.P.setv(), s.Q.setv(), s.P == s.Q}) },
		build: func(s *c17st) py.StringDict {
			mk := func(o *c17obj) py.Object { return c17pySet(o.setv()...) }
			g := py.StringDict{"p": mk(s.P)}
			if s.P == s.Q {
				g["q"] = g["p"]
			} else {
				g["q"] = mk(s.Q)
			}
			return g
		},
		initSrc: "import vh17\np = set()\nq = set()",
		init:    func() *c17st { return &c17st{P: c17newS(), Q: c17newS()} },
		enc:     enc,
		ops:     c17SetOps(),
		obsSrc: func(tag string) string {
			return "vh.log('" + tag + "', " + one("p") + ", " + one("q") + ", p == q, p != q, q == p, vh17.same(p, q), p is q)"
		},
		obs: func(tag string, s *c17st) string {
			t := c17tup{tag}
			t = append(t, mone(s.P)...)
			t = append(t, mone(s.Q)...)
			eq := c17eqS(s.P.S, s.Q.S)
			t = append(t, eq, !eq, eq, s.P == s.Q, s.P == s.Q)
			return c17f(t)
		},
		postSrc: "p.add(8)\nvh.log('A', p, q, vh17.same(p, q))\nq.add(6)\nvh.log('B', p, q, vh17.same(p, q))",
		post: func(s *c17st) []string {
			var out []string
			s.P.S[8] = true
			out = append(out, c17f(c17tup{"A", s.P.setv(), s.Q.setv(), s.P == s.Q}))
			s.Q.S[6] = true
			out = append(out, c17f(c17tup{"B", s.P.setv(), s.Q.setv(), s.P == s.Q}))
			return out
		},
		apiObs: func(tag string, e *c17env) string {
			t := py.Tuple{py.String(tag)}
			t = append(t, aone(e.P())...)
			t = append(t, aone(e.Q())...)
			t = append(t, c17apiCmp(e)...)
			return harness.Canon(t)
		},
		apiPost: func(e *c17env) []string {
			var out []string
			step := func(tag string, o py.Object, v int) {
				if s, ok := o.(*py.Set); ok {
					s.Add(py.Int(v))
				}
				out = append(out, harness.Canon(py.Tuple{py.String(tag), e.P(), e.Q(), c17b(c17Same(e.P(), e.Q()))}))
			}
			step("A", e.P(), 8)
			step("B", e.Q(), 6)
			return out
		},
	}
}

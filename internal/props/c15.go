package props

import (
	"bufio"
	"math"
	"math/big"
	"os"
	"strconv"
	"strings"

	"github.com/go-python/gpython/py"
	"verif/internal/core"
)

// C15: float and mixed-type arithmetic follow IEEE-754 with Python's rules.
// The reference model is in c15model.go.

type c15 struct {
	rc     *core.RunCtx
	ev     *evaluator
	devlog *bufio.Writer // development only: C15_DEVLOG=<file> lists every deviation (one file per worker)
	dump   *bufio.Writer // development only: C15_DUMP=<file> writes "expr<TAB>expected" for scripts/c15_crosscheck.py
}

type c15op struct {
	name string
	sym  string
	api  func(a, b py.Object) (py.Object, error)
	iapi func(a, b py.Object) (py.Object, error)
}

func c15divmodAPI(a, b py.Object) (py.Object, error) {
	q, r, err := py.DivMod(a, b)
	if err != nil {
		return nil, err
	}
	return py.Tuple{q, r}, nil
}

func c15powAPI(a, b py.Object) (py.Object, error)  { return py.Pow(a, b, py.None) }
func c15ipowAPI(a, b py.Object) (py.Object, error) { return py.IPow(a, b, py.None) }

func c15Ops() []c15op {
	return []c15op{
		{"add", "+", py.Add, py.IAdd},
		{"sub", "-", py.Sub, py.ISub},
		{"mul", "*", py.Mul, py.IMul},
		{"truediv", "/", py.TrueDiv, py.ITrueDiv},
		{"floordiv", "//", py.FloorDiv, py.IFloorDiv},
		{"mod", "%", py.Mod, py.IMod},
		{"divmod", "divmod", c15divmodAPI, nil},
		{"lt", "<", py.Lt, nil},
		{"le", "<=", py.Le, nil},
		{"eq", "==", py.Eq, nil},
		{"ne", "!=", py.Ne, nil},
		{"gt", ">", py.Gt, nil},
		{"ge", ">=", py.Ge, nil},
	}
}

var c15powOp = c15op{"pow", "**", c15powAPI, c15ipowAPI}

func c15outcome(m mv) string {
	if m.kind == "exc" {
		return m.s
	}
	if m.kind == "type" {
		return m.s
	}
	return m.kind
}

// c15devClass: input-independent class of a disagreement.
func c15devClass(exp mv, got Res) string {
	switch {
	case exp.isExc() && got.Exc != "":
		return "wrong-exception:" + got.Exc + "-for-" + exp.s
	case exp.isExc():
		return "no-exception-for-" + exp.s
	case got.Exc != "":
		return "unexpected-" + got.Exc
	}
	gk := got.Val
	if i := strings.Index(gk, ":"); i > 0 {
		gk = gk[:i]
	}
	if gk != c15outcome(exp) {
		return "wrong-type:" + gk + "-for-" + c15outcome(exp)
	}
	if exp.kind == "float" {
		gv := strings.TrimPrefix(got.Val, "float:")
		switch {
		case exp.f == 0 && (gv == "0.0" || gv == "-0.0"):
			return "wrong-zero-sign"
		case gv == "nan":
			return "nan-for-value"
		case gv == "inf" || gv == "-inf":
			return "inf-for-value"
		case math.IsNaN(exp.f):
			return "value-for-nan"
		}
	}
	return "wrong-value"
}

func (c *c15) check(f core.Fields, input string, exp mv, got Res) {
	rc := c.rc
	rc.Eval(f["op"]+":"+c15outcome(exp), input)
	if rc.WantSample() && rc.Index()%4001 == 0 {
		rc.Sample(map[string]string{"case": input, "expected": exp.canon(), "observed": got.String()})
	}
	if c.dump != nil && strings.HasPrefix(f["via"], "source") && !strings.Contains(input, "\n") {
		alts := ""
		for _, a := range exp.alt {
			alts += "\t" + a.dumpText()
		}
		c.dump.WriteString(input + "\t" + exp.dumpText() + alts + "\n")
	}
	if !c15match(exp, got) {
		if c.devlog != nil {
			c.devlog.WriteString(f["op"] + ":" + c15devClass(exp, got) + "\t" + input + "\t" + exp.canon() + "\t" + got.String() + "\n")
		}
		rc.Deviate(core.Deviation{Fields: f, Input: input, Expected: exp.canon(), Observed: got.String(), Sig: f["op"] + ":" + c15devClass(exp, got)})
	}
}

// dumpText: expected value in a form a Python script can reproduce (floats by bit pattern).
func (m mv) dumpText() string {
	fb := func(f float64) string {
		if math.IsNaN(f) {
			return "nan"
		}
		return "0x" + strconv.FormatUint(math.Float64bits(f), 16)
	}
	switch m.kind {
	case "float":
		return "float:" + fb(m.f)
	case "complex":
		return "complex:(" + fb(m.f) + "," + fb(m.im) + ")"
	case "tuple":
		xs := make([]string, len(m.items))
		for i, it := range m.items {
			xs[i] = it.dumpText()
		}
		return "tuple:(" + strings.Join(xs, ",") + ")"
	}
	return m.canon()
}

func c15fields(op string, a, b c15val, via string) core.Fields {
	return core.Fields{"op": op, "a": a.name(), "b": b.name(), "ta": a.t, "tb": b.t, "ca": a.class(), "cb": b.class(), "via": via}
}

func c15fields1(op string, a c15val, via string) core.Fields {
	return core.Fields{"op": op, "a": a.name(), "ta": a.t, "ca": a.class(), "via": via}
}

func c15expr(op c15op, a, b c15val) string {
	if op.sym == "divmod" {
		return "divmod(" + a.lit() + ", " + b.lit() + ")"
	}
	return a.lit() + " " + op.sym + " " + b.lit()
}

// binary runs one (op, a, b) through every access path.
func (c *c15) binary(op c15op, a, b c15val, withBig, withAug bool) {
	rc := c.rc
	// the model value is computed lazily (only by the worker that executes the case) unless it
	// decides whether the case exists at all (pow and int-int cases may be outside the model)
	var exp mv
	have := false
	if op.name == "pow" || (a.isInt() && b.isInt()) || (op.name == "truediv" && (a.t == "complex" || b.t == "complex")) {
		exp, have = c15Bin(op.name, a, b), true
		if exp.isSkip() {
			return
		}
	}
	get := func() mv {
		if !have {
			exp, have = c15Bin(op.name, a, b), true
		}
		return exp
	}
	as, an := a.objs(withBig)
	bs, bn := b.objs(withBig)
	for ia, A := range as {
		for ib, B := range bs {
			A, B := A, B
			rp := an[ia] + "," + bn[ib]
			if rc.Take() {
				f := c15fields(op.name, a, b, "api")
				f["repr"] = rp
				in := "py." + op.name + "(" + a.name() + "[" + an[ia] + "], " + b.name() + "[" + bn[ib] + "])"
				rc.Guard(f, func() string { return in }, func() { c.check(f, in, get(), c15obs(op.api(A, B))) })
			}
			if op.iapi != nil && ia == 0 && ib == 0 && rc.Take() {
				f := c15fields(op.name, a, b, "api-inplace")
				f["repr"] = rp
				in := "py.I" + op.name + "(" + a.name() + ", " + b.name() + ")"
				rc.Guard(f, func() string { return in }, func() { c.check(f, in, get(), c15obs(op.iapi(A, B))) })
			}
		}
	}
	if rc.Take() {
		expr := c15expr(op, a, b)
		f := c15fields(op.name, a, b, "source")
		rc.Guard(f, func() string { return expr }, func() { c.check(f, expr, get(), c15obs(c.ev.Eval(expr))) })
	}
	if withAug && op.iapi != nil && rc.Take() {
		src := "x = " + a.lit() + "\nx " + op.sym + "= " + b.lit() + "\n"
		f := c15fields(op.name, a, b, "source-aug")
		rc.Guard(f, func() string { return src }, func() {
			g, err := c.ev.Exec(src)
			var got Res
			if err != nil {
				got = c15obs(nil, err)
			} else {
				got = c15obs(g["x"], nil)
			}
			c.check(f, src, get(), got)
		})
	}
}

// unary-style case: model value against a Go API call and/or a source expression.
func (c *c15) one(f core.Fields, input string, exp mv, run func() (py.Object, error)) {
	rc := c.rc
	if exp.isSkip() || !rc.Take() {
		return
	}
	rc.Guard(f, func() string { return input }, func() { c.check(f, input, exp, c15obs(run())) })
}

func (c *c15) src(f core.Fields, expr string, exp mv) {
	c.one(f, expr, exp, func() (py.Object, error) { return c.ev.Eval(expr) })
}

func c15callBuiltin(ev *evaluator, name string, args ...py.Object) (py.Object, error) {
	fn, ok := ev.ctx.Store().Builtins.Globals[name]
	if !ok {
		return nil, py.ExceptionNewf(py.NameError, "no builtin %s", name)
	}
	return py.Call(fn, py.Tuple(args), nil)
}

func c15Run(rc *core.RunCtx) {
	c := &c15{rc: rc, ev: newEvaluator()}
	if p := os.Getenv("C15_DUMP"); p != "" {
		if fh, err := os.OpenFile(p+"."+itoa(os.Getpid()), os.O_CREATE|os.O_WRONLY|os.O_APPEND, 0o644); err == nil {
			c.dump = bufio.NewWriterSize(fh, 1<<20)
			defer func() { c.dump.Flush(); fh.Close() }()
		}
	}
	if p := os.Getenv("C15_DEVLOG"); p != "" {
		if fh, err := os.OpenFile(p+"."+itoa(os.Getpid()), os.O_CREATE|os.O_WRONLY|os.O_APPEND, 0o644); err == nil {
			c.devlog = bufio.NewWriterSize(fh, 1<<16)
			defer func() { c.devlog.Flush(); fh.Close() }()
		}
	}
	quick := rc.Quick()
	F := c15F(quick)
	L := c07Lattice(quick)
	huge := c15Huge()
	ops := c15Ops()
	rc.Note("F_size", itoa(len(F)))
	rc.Note("L_size", itoa(len(L)))

	var Fv, Lv, Hv []c15val
	for _, x := range F {
		Fv = append(Fv, fv(x))
	}
	for _, x := range L {
		Lv = append(Lv, iv(x))
	}
	Lv = append(Lv, bv(true), bv(false))
	for _, x := range huge {
		Hv = append(Hv, iv(x))
	}

	// (1) float x float, every operator, all access paths (in-place forms too)
	rc.Part = "float-float"
	for _, a := range Fv {
		for _, b := range Fv {
			if rc.Expired() || rc.Done() {
				return
			}
			for _, op := range ops {
				c.binary(op, a, b, false, true)
			}
		}
	}
	// (2) float x int and int x float (ints of every size and representation, bools, ints beyond the double range)
	rc.Part = "float-int"
	for _, a := range Fv {
		for _, set := range [][]c15val{Lv, Hv} {
			for _, b := range set {
				if rc.Expired() || rc.Done() {
					return
				}
				for _, op := range ops {
					c.binary(op, a, b, true, false)
					c.binary(op, b, a, true, false)
				}
			}
		}
	}
	// (2b) seeded pseudo-random doubles (fixed LCG): pairs among themselves and with a few ints
	rc.Part = "float-rand"
	var Rv []c15val
	for _, x := range c15Rand(map[bool]int{true: 5, false: 16}[quick]) {
		Rv = append(Rv, fv(x))
	}
	Ri := []c15val{iv(big.NewInt(3)), iv(big.NewInt(-7)), iv(c15bigS("9007199254740993")), iv(c15bigS("-18446744073709551617")), iv(c15bigS("10000000000000000000000"))}
	for _, a := range Rv {
		for _, b := range Rv {
			if rc.Expired() || rc.Done() {
				return
			}
			for _, op := range ops {
				c.binary(op, a, b, false, false)
			}
		}
		for _, b := range Ri {
			for _, op := range ops {
				c.binary(op, a, b, false, false)
				c.binary(op, b, a, false, false)
			}
		}
	}
	// (3) int / int: true division is correctly rounded from the exact quotient
	rc.Part = "int-truediv"
	tdv := ops[3]
	LH := append(append([]c15val{}, Lv...), Hv...)
	for _, a := range LH {
		for _, b := range LH {
			if rc.Expired() || rc.Done() {
				return
			}
			if a.t == "bool" && b.t == "bool" {
				continue // bool op bool is int arithmetic on the bool type itself: not this property
			}
			c.binary(tdv, a, b, false, false)
		}
	}
	// (4) ** on a sub-lattice (float pow special cases; exact results only)
	rc.Part = "pow"
	c.powPart(quick)
	// (5) conversions int -> float, float -> int, unary operators
	rc.Part = "convert"
	if c.convertPart(F, L, quick) {
		return
	}
	// (6) round
	rc.Part = "round"
	if c.roundPart(F, L, quick) {
		return
	}
	// (7) text
	rc.Part = "text"
	if c.textPart(F, quick) {
		return
	}
	// (8) builtins against the operators they are defined by
	rc.Part = "builtins"
	if c.builtinPart(quick) {
		return
	}
	// (9) complex
	rc.Part = "complex"
	c.complexPart(quick)
}

func c15bigS(s string) *big.Int {
	x, ok := new(big.Int).SetString(s, 10)
	if !ok {
		panic(s)
	}
	return x
}

func (c *c15) powPart(quick bool) {
	rc := c.rc
	inf, nan := math.Inf(1), math.NaN()
	bases := []c15val{fv(0), fv(math.Copysign(0, -1)), fv(1), fv(-1), fv(2), fv(-2), fv(0.5), fv(-0.5), fv(3), fv(10), fv(1.5), fv(-8), fv(4), fv(0.25), fv(-0.25),
		fv(inf), fv(-inf), fv(nan), fv(math.MaxFloat64), fv(-math.MaxFloat64), fv(math.SmallestNonzeroFloat64), fv(9007199254740992), fv(0.1), fv(-1.5),
		iv(big.NewInt(0)), iv(big.NewInt(1)), iv(big.NewInt(-1)), iv(big.NewInt(2)), iv(big.NewInt(-2)), iv(big.NewInt(3)), iv(big.NewInt(10)), iv(big.NewInt(-8)), iv(big.NewInt(4)),
		iv(c15bigS("18446744073709551616")), iv(c15bigS("-18446744073709551616")), bv(true), bv(false), iv(new(big.Int).Lsh(big.NewInt(1), 1024))}
	exps := []c15val{fv(0), fv(math.Copysign(0, -1)), fv(1), fv(-1), fv(2), fv(-2), fv(0.5), fv(-0.5), fv(3), fv(-3), fv(4), fv(52), fv(53), fv(64), fv(1023), fv(1024), fv(-1022), fv(-1074), fv(-1075), fv(1e300), fv(-1e300),
		fv(inf), fv(-inf), fv(nan), fv(1.5), fv(0.1),
		iv(big.NewInt(0)), iv(big.NewInt(1)), iv(big.NewInt(-1)), iv(big.NewInt(2)), iv(big.NewInt(-2)), iv(big.NewInt(3)), iv(big.NewInt(-3)), iv(big.NewInt(64)), iv(big.NewInt(-64)), iv(big.NewInt(1024)), iv(big.NewInt(-1074)), iv(big.NewInt(-1075)),
		bv(true), bv(false), iv(new(big.Int).Lsh(big.NewInt(1), 1024)), iv(new(big.Int).Neg(new(big.Int).Lsh(big.NewInt(1), 1024)))}
	for _, a := range bases {
		for _, b := range exps {
			if rc.Expired() || rc.Done() {
				return
			}
			if a.isInt() && b.isInt() && b.i.Sign() >= 0 {
				continue // exact integer power: C07
			}
			if a.isInt() && b.isInt() && (a.i.BitLen() > 64 || b.i.BitLen() > 64) {
				continue // int ** -huge: Python computes through floats and the error class is version dependent
			}
			c.binary(c15powOp, a, b, !quick, true)
		}
	}
}

func (c *c15) convertPart(F []float64, L []*big.Int, quick bool) (stop bool) {
	rc := c.rc
	ints := c15IntsForConversion(L, quick)
	rc.Note("conversion_ints", itoa(len(ints)))
	for _, x := range ints {
		if rc.Expired() || rc.Done() {
			return true
		}
		a := iv(x)
		var exp mv
		if f, ok := intToFloat(x); ok {
			exp = mvF(f)
		} else {
			exp = mvExc("OverflowError")
		}
		objs, names := a.objs(true)
		for i, o := range objs {
			o := o
			f := c15fields1("float", a, "api")
			f["repr"] = names[i]
			c.one(f, "py.MakeFloat("+a.name()+"["+names[i]+"])", exp, func() (py.Object, error) { return py.MakeFloat(o) })
		}
		c.src(c15fields1("float", a, "source"), "float("+a.lit()+")", exp)
		// complex(int) converts the same way
		expc := exp
		if !exp.isExc() {
			expc = mvC(exp.f, 0)
		}
		c.src(c15fields1("complex", a, "source"), "complex("+a.lit()+")", expc)
	}
	for _, t := range []bool{false, true} {
		a := bv(t)
		x, _ := a.toFloat()
		c.one(c15fields1("float", a, "api"), "py.MakeFloat("+a.name()+")", mvF(x), func() (py.Object, error) { return py.MakeFloat(py.NewBool(t)) })
		c.src(c15fields1("float", a, "source"), "float("+a.lit()+")", mvF(x))
		c.src(c15fields1("complex", a, "source"), "complex("+a.lit()+")", mvC(x, 0))
	}
	vals := append(append([]float64{}, F...), c15Rand(map[bool]int{true: 40, false: 600}[quick])...)
	type un struct {
		name  string
		api   func(o py.Object) (py.Object, error)
		src   string
		model func(x float64) mv
	}
	uns := []un{
		{"int", py.MakeInt, "int(%s)", floatToInt},
		{"float", py.MakeFloat, "float(%s)", func(x float64) mv { return mvF(x) }},
		{"neg", py.Neg, "-%s", func(x float64) mv { return mvF(-x) }},
		{"pos", py.Pos, "+%s", func(x float64) mv { return mvF(x) }},
		{"abs", py.Abs, "abs(%s)", func(x float64) mv { return mvF(math.Abs(x)) }},
		{"bool", func(o py.Object) (py.Object, error) { return py.MakeBool(o) }, "bool(%s)", func(x float64) mv { return mvB(x != 0) }},
		{"not", nil, "not %s", func(x float64) mv { return mvB(x == 0) }},
		{"complex", py.MakeComplex, "complex(%s)", func(x float64) mv { return mvC(x, 0) }},
		{"literal", nil, "%s", func(x float64) mv { return mvF(x) }},
	}
	for _, x := range vals {
		if rc.Expired() || rc.Done() {
			return true
		}
		a := fv(x)
		for _, u := range uns {
			u := u
			exp := u.model(x)
			if u.api != nil {
				c.one(c15fields1(u.name, a, "api"), "py."+u.name+"("+a.name()+")", exp, func() (py.Object, error) { return u.api(py.Float(x)) })
			}
			c.src(c15fields1(u.name, a, "source"), strings.Replace(u.src, "%s", a.lit(), 1), exp)
		}
	}
	return false
}

func (c *c15) roundPart(F []float64, L []*big.Int, quick bool) (stop bool) {
	rc := c.rc
	halves := []float64{0.05, 0.15, 0.25, 0.35, 0.45, 0.125, 0.375, 0.625, 1.005, 2.675, 2.665, 1.25, 1.35, 4.5, 5.5, 6.5, 15, 25, 35, 45, 50, 150, 250, 350, 1250, 0.0005, 0.0015, 0.0025,
		0.49999999999999994, 0.5000000000000001, 4503599627370497, 9007199254740992, 5e-324, 1e-3, 0.3, 1.15, 1.45, 2.5e15, 1.5e16, 1.2345e20, 1.7e308}
	set := map[uint64]bool{}
	var vals []float64
	put := func(x float64) {
		if !set[math.Float64bits(x)] {
			set[math.Float64bits(x)] = true
			vals = append(vals, x)
		}
	}
	for _, x := range F {
		put(x)
	}
	for _, x := range halves {
		put(x)
		put(-x)
	}
	for _, x := range c15Rand(map[bool]int{true: 20, false: 300}[quick]) {
		put(x)
	}
	ns := []int{0, 1, 2, 3, -1, -2}
	if !quick {
		ns = append(ns, 15, 16, 17, 22, 308, 323, 324, 400, -3, -15, -16, -22, -307, -308, -309, -400)
	}
	for _, x := range vals {
		if rc.Expired() || rc.Done() {
			return true
		}
		a := fv(x)
		exp := pyRoundFloat(x, false, 0)
		f := c15fields1("round", a, "api")
		f["n"] = "none"
		c.one(f, "Float("+a.name()+").M__round__(None)", exp, func() (py.Object, error) { return py.Float(x).M__round__(py.None) })
		f = c15fields1("round", a, "api-builtin")
		f["n"] = "none"
		c.one(f, "builtins.round("+a.name()+")", exp, func() (py.Object, error) { return c15callBuiltin(c.ev, "round", py.Float(x)) })
		f = c15fields1("round", a, "source")
		f["n"] = "none"
		c.src(f, "round("+a.lit()+")", exp)
		for _, n := range ns {
			n := n
			exp := pyRoundFloat(x, true, n)
			f := c15fields1("round", a, "api")
			f["n"] = itoa(n)
			c.one(f, "Float("+a.name()+").M__round__("+itoa(n)+")", exp, func() (py.Object, error) { return py.Float(x).M__round__(py.Int(n)) })
			f = c15fields1("round", a, "source")
			f["n"] = itoa(n)
			c.src(f, "round("+a.lit()+", "+itoa(n)+")", exp)
		}
	}
	// ints: round(i) and round(i, n) stay ints; negative n rounds half to even
	ints := append([]*big.Int{}, L...)
	for _, s := range []string{"5", "15", "25", "35", "45", "50", "150", "250", "350", "1250", "14", "16", "24", "26", "149", "151", "249", "251", "9223372036854775805", "9223372036854775850", "18446744073709551650", "18446744073709551750"} {
		x := c15bigS(s)
		ints = append(ints, x, new(big.Int).Neg(x))
	}
	ins := []int{0, 1, 3, -1, -2}
	if !quick {
		ins = append(ins, -3, -18, -19, -20, -25)
	}
	for _, x := range ints {
		if rc.Expired() || rc.Done() {
			return true
		}
		a := iv(x)
		objs, names := a.objs(true)
		exp := pyRoundInt(x, false, 0)
		for i, o := range objs {
			o := o
			f := c15fields1("round", a, "api")
			f["n"] = "none"
			f["repr"] = names[i]
			c.one(f, "Int("+a.name()+"["+names[i]+"]).M__round__(None)", exp, func() (py.Object, error) { return o.(py.I__round__).M__round__(py.None) })
		}
		f := c15fields1("round", a, "source")
		f["n"] = "none"
		c.src(f, "round("+a.lit()+")", exp)
		for _, n := range ins {
			n := n
			exp := pyRoundInt(x, true, n)
			for i, o := range objs {
				o := o
				f := c15fields1("round", a, "api")
				f["n"] = itoa(n)
				f["repr"] = names[i]
				c.one(f, "Int("+a.name()+"["+names[i]+"]).M__round__("+itoa(n)+")", exp, func() (py.Object, error) { return o.(py.I__round__).M__round__(py.Int(n)) })
			}
			f := c15fields1("round", a, "source")
			f["n"] = itoa(n)
			c.src(f, "round("+a.lit()+", "+itoa(n)+")", exp)
		}
	}
	return false
}

func (c *c15) textPart(F []float64, quick bool) (stop bool) {
	rc := c.rc
	vals := append(append([]float64{}, F...), c15Rand(map[bool]int{true: 150, false: 4000}[quick])...)
	vals = append(vals, 1e-4, 9.999e-5, 1e-5, 1.5e-7, 123456.789, 1e15, 9999999999999998, 1e16, 1.2e16, 1e17, 1e21, 1e22, 5e-324, 2.2250738585072014e-308, 0.1+0.2, 100, 1e2, 1234567.0, 0.001, 1e100)
	// every decimal-exponent boundary of the double range: the doubles nearest 10**k and their
	// 4 neighbours on each side (thorough: 8), both signs - the text form changes its number of
	// digits there, and at 1e-4 and 1e16 its notation
	{
		width := 4
		if !quick {
			width = 8
		}
		for k := -324; k <= 308; k++ {
			p, err := strconv.ParseFloat("1e"+strconv.Itoa(k), 64)
			if err != nil || p == 0 || math.IsInf(p, 0) {
				continue
			}
			b := math.Float64bits(p)
			for d := -width; d <= width; d++ {
				nb := int64(b) + int64(d)
				if nb <= 0 || nb >= 0x7ff0000000000000 {
					continue
				}
				y := math.Float64frombits(uint64(nb))
				vals = append(vals, y)
				if quick && d != -1 && d != 0 && d != 1 {
					continue
				}
				vals = append(vals, -y)
			}
		}
	}
	seen := map[uint64]bool{}
	for _, x := range vals {
		if rc.Expired() || rc.Done() {
			return true
		}
		if seen[math.Float64bits(x)] {
			continue
		}
		seen[math.Float64bits(x)] = true
		a := fv(x)
		text := pyFloatRepr(x)
		exp := mvS(text)
		c.one(c15fields1("str", a, "api"), "py.Str("+a.name()+")", exp, func() (py.Object, error) { return py.Str(py.Float(x)) })
		c.one(c15fields1("repr", a, "api"), "py.Repr("+a.name()+")", exp, func() (py.Object, error) { return py.Repr(py.Float(x)) })
		c.src(c15fields1("str", a, "source"), "str("+a.lit()+")", exp)
		c.src(c15fields1("repr", a, "source"), "repr("+a.lit()+")", exp)
		c.src(c15fields1("str-percent", a, "source"), "'%s' % "+a.lit(), exp)
		c.src(c15fields1("repr-list", a, "source"), "repr(["+a.lit()+"])", mvS("["+text+"]"))
		// the text converts back to the same float
		c.src(c15fields1("float-of-repr", a, "source"), "float(repr("+a.lit()+"))", mvF(x))
		ft := core.Fields{"op": "float-from-text", "text": text, "via": "api"}
		c.one(ft, "py.FloatFromString("+strconvQuote(text)+")", mvF(x), func() (py.Object, error) { return py.FloatFromString(text) })
		ft = core.Fields{"op": "float-from-text", "text": text, "via": "source"}
		c.src(ft, "float("+pyStrLit(text)+")", mvF(x))
		// the literal spelled as Python prints it denotes the same float (finite, non-negative)
		if fin(x) && !math.Signbit(x) {
			c.src(core.Fields{"op": "literal", "text": text, "via": "source"}, text, mvF(x))
		}
	}
	// other spellings float() accepts or rejects
	texts := []string{"inf", "-inf", "+inf", "nan", "+nan", "-nan", "INF", "Infinity", "-infinity", "iNf", "NaN", "infinit", "in", "nane", "infinityx",
		"1", "+1", "-1", " 1.5 ", "\t1.5\n", "1.", ".5", "-.5", "+.5e1", "1e5", "1E5", "1e+5", "1e-5", "1.5e300", "1e400", "-1e400", "1e-400", "-1e-400", "0.1", "00.1", "007", "1e0007",
		"123456789012345678901234567890", "0.30000000000000004", "9007199254740993", "9007199254740992.5", "1.00000000000000011102230246251565404236316680908203125", "1.00000000000000011102230246251565404236316680908203126",
		"2.2250738585072011e-308", "4.9e-324", "2.4703282292062327e-324", "2.4703282292062328e-324", "1.7976931348623158e308", "1.7976931348623159e308",
		"", " ", ".", "e5", "1e", "1e+", "+", "-", "--1", "+-1", "1.0.0", "1 2", "1,5", "0x10", "0x1p3", "0x1.8p1", "1f", "1.5j", "1e5.0", "- 1", "１"}
	for _, t := range texts {
		if rc.Expired() || rc.Done() {
			return true
		}
		t := t
		var exp mv
		if t == "１" {
			exp = mvSkip // non-ASCII digits: accepted by CPython, outside this model
		} else if f, ok := pyFloatFromText(t); ok {
			exp = mvF(f)
		} else {
			exp = mvExc("ValueError")
		}
		c.one(core.Fields{"op": "float-from-text", "text": t, "via": "api"}, "py.FloatFromString("+strconvQuote(t)+")", exp, func() (py.Object, error) { return py.FloatFromString(t) })
		c.src(core.Fields{"op": "float-from-text", "text": t, "via": "source"}, "float("+pyStrLit(t)+")", exp)
	}
	return false
}

// builtinPart: sum/min/max/abs/pow/divmod against the operators they are defined by.
func (c *c15) builtinPart(quick bool) (stop bool) {
	rc := c.rc
	nz := math.Copysign(0, -1)
	S := []c15val{fv(0), fv(nz), fv(1), fv(-1), fv(1.5), fv(-2.5), fv(0.1), fv(2), fv(9007199254740992), fv(9007199254740994), fv(1e16), fv(-1e16), fv(1e308), fv(math.MaxFloat64), fv(5e-324),
		fv(math.Inf(1)), fv(math.Inf(-1)), fv(math.NaN()),
		iv(big.NewInt(0)), iv(big.NewInt(1)), iv(big.NewInt(-1)), iv(big.NewInt(2)), iv(big.NewInt(-3)), iv(c15bigS("9007199254740993")), iv(c15bigS("9223372036854775807")), iv(c15bigS("18446744073709551617")), bv(true)}
	if quick {
		S = []c15val{fv(0), fv(nz), fv(1), fv(-2.5), fv(0.1), fv(9007199254740992), fv(1e16), fv(-1e16), fv(math.MaxFloat64), fv(math.Inf(1)), fv(math.NaN()),
			iv(big.NewInt(0)), iv(big.NewInt(1)), iv(big.NewInt(-3)), iv(c15bigS("9007199254740993")), iv(c15bigS("18446744073709551617"))}
	}
	addM := func(x, y c15val) mv {
		if x.isInt() && y.isInt() {
			return mvI(new(big.Int).Add(x.i, y.i))
		}
		return c15Bin("add", x, y)
	}
	toVal := func(m mv) (c15val, bool) {
		switch m.kind {
		case "float":
			return fv(m.f), true
		case "int":
			return iv(m.i), true
		}
		return c15val{}, false
	}
	asMv := func(v c15val) mv {
		switch v.t {
		case "float":
			return mvF(v.f)
		case "bool":
			return mvB(v.i.Sign() != 0)
		}
		return mvI(v.i)
	}
	lt := func(x, y c15val) bool { return c15Bin("lt", x, y).b }
	sum := func(start c15val, xs ...c15val) mv {
		acc := asMv(start)
		cur := start
		for _, x := range xs {
			acc = addM(cur, x)
			v, ok := toVal(acc)
			if !ok {
				return acc // exception
			}
			cur = v
		}
		return acc
	}
	for _, a := range S {
		if rc.Expired() || rc.Done() {
			return true
		}
		// abs(x) = x if x >= 0 else -x, and the float rule for -0.0 and nan
		var ea mv
		if a.t == "float" {
			ea = mvF(math.Abs(a.f))
		} else {
			ea = mvI(new(big.Int).Abs(a.i))
		}
		if a.t != "bool" { // abs(bool) is int arithmetic on the bool type itself: not this property
			c.src(c15fields1("abs", a, "builtin"), "abs("+a.lit()+")", ea)
		}
		c.src(c15fields1("sum", a, "builtin"), "sum(["+a.lit()+"])", sum(iv(big.NewInt(0)), a))
		for _, b := range S {
			if a.t == "bool" && b.t == "bool" {
				continue // bool op bool: int arithmetic on the bool type itself
			}
			fl := func(op string) core.Fields { return c15fields(op, a, b, "builtin") }
			// min/max: the first of equal candidates wins (min(a,b) = b if b < a else a)
			mn, mx := a, a
			if lt(b, a) {
				mn = b
			}
			if lt(a, b) {
				mx = b
			}
			c.src(fl("min"), "min("+a.lit()+", "+b.lit()+")", asMv(mn))
			c.src(fl("max"), "max("+a.lit()+", "+b.lit()+")", asMv(mx))
			c.src(fl("min-list"), "min(["+a.lit()+", "+b.lit()+"])", asMv(mn))
			c.src(fl("max-list"), "max(["+a.lit()+", "+b.lit()+"])", asMv(mx))
			c.src(fl("sum"), "sum(["+a.lit()+", "+b.lit()+"])", sum(iv(big.NewInt(0)), a, b))
			c.src(fl("sum-start"), "sum(["+b.lit()+"], "+a.lit()+")", sum(a, b))
			if a.t == "float" || b.t == "float" {
				if dm := c15Bin("divmod", a, b); !dm.isSkip() {
					c.src(fl("divmod"), "divmod("+a.lit()+", "+b.lit()+")", dm)
					f := fl("divmod")
					f["via"] = "api-builtin"
					A, _ := a.objs(false)
					B, _ := b.objs(false)
					c.one(f, "builtins.divmod("+a.name()+", "+b.name()+")", dm, func() (py.Object, error) { return c15callBuiltin(c.ev, "divmod", A[0], B[0]) })
				}
				if pw := c15Bin("pow", a, b); !pw.isSkip() {
					c.src(fl("pow"), "pow("+a.lit()+", "+b.lit()+")", pw)
				}
			}
		}
	}
	// sum over triples of a smaller set: plain left-to-right float addition starting from int 0
	T := []c15val{fv(1e16), fv(-1e16), fv(1), fv(0.1), fv(nz), fv(math.MaxFloat64), iv(big.NewInt(1)), iv(c15bigS("9007199254740993")), fv(math.Inf(1)), fv(math.Inf(-1))}
	if quick {
		T = T[:6]
	}
	for _, a := range T {
		for _, b := range T {
			for _, d := range T {
				if rc.Expired() || rc.Done() {
					return true
				}
				f := c15fields("sum3", a, b, "builtin")
				f["c"] = d.name()
				c.src(f, "sum(["+a.lit()+", "+b.lit()+", "+d.lit()+"])", sum(iv(big.NewInt(0)), a, b, d))
			}
		}
	}
	return false
}

func (c *c15) complexPart(quick bool) {
	rc := c.rc
	nz := math.Copysign(0, -1)
	comps := []float64{0, 1, -1, 2, 0.5, -2.5, 3, nz, 0.1, 1e308}
	if quick {
		comps = []float64{0, 1, -2.5, 3, nz}
	}
	var C []c15val
	for _, re := range comps {
		for _, im := range comps {
			C = append(C, cv(re, im))
		}
	}
	C = append(C, cv(math.Inf(1), math.NaN()), cv(9007199254740992, 0), cv(1.8446744073709552e19, 0))
	partners := []c15val{fv(0), fv(nz), fv(1), fv(-2.5), fv(0.1), fv(3), fv(9007199254740992), fv(math.Inf(1)), fv(math.NaN()),
		iv(big.NewInt(0)), iv(big.NewInt(1)), iv(big.NewInt(-1)), iv(big.NewInt(3)), iv(c15bigS("9007199254740992")), iv(c15bigS("9007199254740993")), iv(c15bigS("18446744073709551616")), iv(c15bigS("18446744073709551617")),
		bv(true), iv(new(big.Int).Lsh(big.NewInt(1), 1024))}
	cops := []c15op{}
	for _, op := range c15Ops() {
		switch op.name {
		case "add", "sub", "mul", "truediv", "eq", "ne":
			cops = append(cops, op)
		}
	}
	for _, a := range C {
		for _, b := range C {
			if rc.Expired() || rc.Done() {
				return
			}
			for _, op := range cops {
				c.binary(op, a, b, false, false)
			}
		}
		for _, b := range partners {
			if rc.Expired() || rc.Done() {
				return
			}
			for _, op := range cops {
				c.binary(op, a, b, true, false)
				c.binary(op, b, a, true, false)
			}
		}
	}
	// construction from ints and floats: complex(re, im), complex(re), real/imag read back
	parts := []c15val{fv(0), fv(nz), fv(1.5), fv(-2.5), fv(math.Inf(1)), fv(math.NaN()), fv(math.MaxFloat64),
		iv(big.NewInt(0)), iv(big.NewInt(-1)), iv(c15bigS("9007199254740993")), iv(c15bigS("18446744073709551617")), bv(true), iv(new(big.Int).Lsh(big.NewInt(1), 1024))}
	for _, re := range parts {
		for _, im := range parts {
			if rc.Expired() || rc.Done() {
				return
			}
			x, ok1 := re.toFloat()
			y, ok2 := im.toFloat()
			exp := mvC(x, y)
			if !ok1 || !ok2 {
				exp = mvExc("OverflowError")
			}
			f := c15fields("complex-new", re, im, "source")
			c.src(f, "complex("+re.lit()+", "+im.lit()+")", exp)
			if !exp.isExc() {
				f = c15fields("complex-parts", re, im, "source")
				c.src(f, "(complex("+re.lit()+", "+im.lit()+").real, complex("+re.lit()+", "+im.lit()+").imag)", mvT(mvF(x), mvF(y)))
			}
		}
	}
}

func init() {
	core.Register(&core.Check{
		ID:    "C15",
		Level: "model_checking",
		Rule: "F = lattice of special doubles with their negatives (0, small halves .5..3.5, 0.1, 10, 2^k and its two neighbours for k in {-1,0,1,52,53,54,62,63,64,1023} [quick: {0,53,63,64}], min/max subnormal, min normal (+1ulp), max, 1e15..1e23, (2^52-1)+.5, 2^51+.5, 1/3, 0.25, 0.3, 2.675, 1e+-300, +-inf, nan: 123 values, quick 57); " +
			"L = the C07 int lattice (327 values, quick 43) + True/False; H = 20 ints at and beyond the double range (2^1024-2^971 +-1, 2^1024-2^970 (-1), 2^1024 +-1, 2^1023, 2^2000, negated). " +
			"(1) all ordered pairs F x F, F x (L u H), (L u H) x F for + - * / // % divmod < <= == != > >=, each through the Go API (ints in word and forced-big representation, in-place forms) and as compiled source (17-significant-digit literals, float('inf')/float('nan'); augmented assignment for F x F); 32 (quick 10) LCG doubles pairwise and against 5 ints; " +
			"(2) int / int over (L u H)^2; (3) ** over 38 bases x 42 exponents (floats, ints, bools; int ** non-negative int excluded), only where the result is exact, special, a clear overflow/underflow or complex; " +
			"(4) float(i), complex(i) for L u {10^k, ties 2^k+m*2^(k-53) +-1} u H (461 ints, quick 121); int float neg pos abs bool not complex of x and the literal itself for F u 1200 (quick 80) LCG doubles; " +
			"(5) round(x), round(x, n), n in {0,1,2,3,-1,-2} (thorough also +-15 +-16 17 +-22 308 -307 -308 -309 323 324 +-400 -3) over F u 82 decimal halves and boundary values u 600 (quick 40) LCG doubles; round(i), round(i, n) over L u tie ints; " +
			"(6) str, repr, '%s' %, repr([x]), float(repr(x)), float(text) and the literal text for F u 8000 (quick 300) LCG doubles u 20 layout boundaries; float(text) for 70 well- and ill-formed spellings; " +
			"(7) min max (2 args and list) sum sum-with-start abs pow divmod through the builtins over a 27^2 (quick 16^2) sub-lattice of floats and ints, sum over 10^3 (quick 6^3) triples; " +
			"(8) complex + - * / == != over a 103-value (quick 28) complex lattice x (itself u 19 real partners incl. big ints) both orders, complex(re, im) over 13^2 parts. Every case is non-trivial (distinct by input text).",
		Run: c15Run,
		Assumptions: []string{
			"Go float64 arithmetic is IEEE-754 binary64 round-to-nearest-even without fused multiply-add (amd64); math.Mod is exact like C fmod",
			"math/big (Rat, Float with 53 bits ToNearestEven) is the oracle for exact comparison, correctly rounded conversion and decimal rounding; strconv shortest formatting is the oracle for repr digits",
			"** is only checked where the result is exactly representable, a special value or a clear overflow/underflow (libm rounding of inexact powers is not modelled); complex division accepts CPython's formula or the correctly rounded exact quotient",
			"the model was cross-checked case by case against CPython 3.11 (scripts/c15_crosscheck.py) on the same enumeration",
		},
		Explanation: "exhaustive enumeration of operand lattices against a naive Go reference model (IEEE double + math/big); every model value is compared with the implementation's typed result side by side",
	})
}

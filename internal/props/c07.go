package props

import (
	"math/big"
	"sort"
	"strings"

	"github.com/go-python/gpython/py"
	"verif/internal/core"
)

// C07: integer arithmetic is exact and independent of the internal representation.

func c07Lattice(quick bool) []*big.Int {
	set := map[string]*big.Int{}
	add := func(x *big.Int) { set[x.String()] = new(big.Int).Set(x) }
	for i := int64(-3); i <= 3; i++ {
		add(big.NewInt(i))
	}
	ks := []uint{7, 8, 15, 16, 24, 31, 32, 33, 48, 52, 53, 54, 62, 63, 64, 65, 96, 127, 128, 191, 192}
	ds := []int64{-3, -2, -1, 0, 1, 2, 3}
	if quick {
		ks = []uint{31, 32, 62, 63, 64}
		ds = []int64{-1, 0, 1}
	}
	for _, k := range ks {
		p := new(big.Int).Lsh(big.NewInt(1), k)
		for _, d := range ds {
			x := new(big.Int).Add(p, big.NewInt(d))
			add(x)
			add(new(big.Int).Neg(x))
		}
	}
	// floor(2^31.5) = 3037000499 (sqrt of IntMax) and neighbours
	for _, d := range ds {
		x := big.NewInt(3037000499 + d)
		add(x)
		add(new(big.Int).Neg(x))
	}
	if !quick {
		for _, s := range []string{"10", "255", "1000000007", "4294967311", "18446744073709551629", "340282366920938463463374607431768211507", "99999999999999999999999999999999999999999"} {
			x, _ := new(big.Int).SetString(s, 10)
			add(x)
			add(new(big.Int).Neg(x))
		}
	}
	var out []*big.Int
	for _, v := range set {
		out = append(out, v)
	}
	sort.Slice(out, func(i, j int) bool {
		ai, aj := new(big.Int).Abs(out[i]), new(big.Int).Abs(out[j])
		if c := ai.Cmp(aj); c != 0 {
			return c < 0
		}
		return out[i].Sign() > out[j].Sign()
	})
	return out
}

type c07bin struct {
	name  string
	sym   string // Python spelling
	api   func(a, b py.Object) (py.Object, error)
	iapi  func(a, b py.Object) (py.Object, error)
	model func(a, b *big.Int) Res
}

func floorDivMod(a, b *big.Int) (*big.Int, *big.Int) {
	q, m := new(big.Int), new(big.Int)
	q.DivMod(a, b, m) // Euclidean: m >= 0
	if m.Sign() != 0 && b.Sign() < 0 {
		// convert Euclidean to floor: remainder takes the sign of the divisor
		q.Sub(q, big.NewInt(1))
		m.Add(m, b)
	}
	return q, m
}

func bres(x *big.Int) Res { return valRes("int:" + x.String()) }
func boolRes(b bool) Res {
	if b {
		return valRes("bool:True")
	}
	return valRes("bool:False")
}

func c07Binops() []c07bin {
	cmp := func(f func(int) bool) func(a, b *big.Int) Res {
		return func(a, b *big.Int) Res { return boolRes(f(a.Cmp(b))) }
	}
	return []c07bin{
		{"add", "+", py.Add, py.IAdd, func(a, b *big.Int) Res { return bres(new(big.Int).Add(a, b)) }},
		{"sub", "-", py.Sub, py.ISub, func(a, b *big.Int) Res { return bres(new(big.Int).Sub(a, b)) }},
		{"mul", "*", py.Mul, py.IMul, func(a, b *big.Int) Res { return bres(new(big.Int).Mul(a, b)) }},
		{"floordiv", "//", py.FloorDiv, py.IFloorDiv, func(a, b *big.Int) Res {
			if b.Sign() == 0 {
				return excRes("ZeroDivisionError")
			}
			q, _ := floorDivMod(a, b)
			return bres(q)
		}},
		{"mod", "%", py.Mod, py.IMod, func(a, b *big.Int) Res {
			if b.Sign() == 0 {
				return excRes("ZeroDivisionError")
			}
			_, m := floorDivMod(a, b)
			return bres(m)
		}},
		{"divmod", "divmod", func(a, b py.Object) (py.Object, error) {
			q, r, err := py.DivMod(a, b)
			if err != nil {
				return nil, err
			}
			return py.Tuple{q, r}, nil
		}, nil, func(a, b *big.Int) Res {
			if b.Sign() == 0 {
				return excRes("ZeroDivisionError")
			}
			q, m := floorDivMod(a, b)
			return valRes("tuple:(" + q.String() + "," + m.String() + ")")
		}},
		{"and", "&", py.And, py.IAnd, func(a, b *big.Int) Res { return bres(new(big.Int).And(a, b)) }},
		{"or", "|", py.Or, py.IOr, func(a, b *big.Int) Res { return bres(new(big.Int).Or(a, b)) }},
		{"xor", "^", py.Xor, py.IXor, func(a, b *big.Int) Res { return bres(new(big.Int).Xor(a, b)) }},
		{"lt", "<", py.Lt, nil, cmp(func(c int) bool { return c < 0 })},
		{"le", "<=", py.Le, nil, cmp(func(c int) bool { return c <= 0 })},
		{"eq", "==", py.Eq, nil, cmp(func(c int) bool { return c == 0 })},
		{"ne", "!=", py.Ne, nil, cmp(func(c int) bool { return c != 0 })},
		{"gt", ">", py.Gt, nil, cmp(func(c int) bool { return c > 0 })},
		{"ge", ">=", py.Ge, nil, cmp(func(c int) bool { return c >= 0 })},
	}
}

func lit(x *big.Int) string {
	if x.Sign() < 0 {
		return "(" + x.String() + ")"
	}
	return x.String()
}

type c07 struct {
	rc *core.RunCtx
	ev *evaluator
}

func (c *c07) check(fields core.Fields, input string, exp Res, got Res, alts ...string) {
	rc := c.rc
	nt := ""
	if exp.Exc != "" || strings.Contains(exp.Val, "tuple") || len(exp.Val) > 8 {
		nt = input
	} else {
		nt = input
	}
	rc.Eval(fields["op"]+":"+outcomeClass(exp), nt)
	if rc.WantSample() && rc.Index()%3001 == 0 {
		rc.Sample(map[string]string{"case": input, "expected": exp.String(), "observed": got.String()})
	}
	if !got.matches(exp, alts...) {
		rc.Deviate(core.Deviation{Fields: fields, Input: input, Expected: exp.String(), Observed: got.String(), Sig: fields["op"] + ":" + devClass(exp, got)})
	}
}

func outcomeClass(r Res) string {
	if r.Exc != "" {
		return r.Exc
	}
	if i := strings.Index(r.Val, ":"); i > 0 {
		return r.Val[:i]
	}
	return "value"
}

func devClass(exp, got Res) string {
	switch {
	case exp.Exc != "" && got.Exc != "":
		return "wrong-exception:" + got.Exc + "-for-" + exp.Exc
	case exp.Exc != "":
		return "no-exception-for-" + exp.Exc
	case got.Exc != "":
		return "unexpected-" + got.Exc
	}
	if outcomeClass(exp) != outcomeClass(got) {
		return "wrong-type:" + outcomeClass(got)
	}
	return "wrong-value"
}

func reprName(big bool) string {
	if big {
		return "big"
	}
	return "nat"
}

func c07Run(rc *core.RunCtx) {
	c := &c07{rc: rc, ev: newEvaluator()}
	L := c07Lattice(rc.Quick())
	ops := c07Binops()
	rc.Note("lattice_size", itoa(len(L)))
	// representations of an operand: natural, and forced arbitrary-precision when it fits a word
	reprs := func(x *big.Int) []py.Object {
		if x.IsInt64() {
			return []py.Object{pyInt(x), pyBig(x)}
		}
		return []py.Object{pyInt(x)}
	}
	// (0) two-step histories: an operation whose operands may also be True/False, then a fixed
	// probe set; the first result and the operands must still be what they were afterwards
	rc.Part = "history"
	c.history(L, ops)
	if rc.Expired() || rc.Done() {
		return
	}
	c.textHistory()
	if rc.Expired() || rc.Done() {
		return
	}
	// (1) binary operators, Go API (both representations, normal and in-place) and source text
	rc.Part = "binary"
	for _, a := range L {
		for _, b := range L {
			if rc.Expired() || rc.Done() {
				return
			}
			for _, op := range ops {
				exp := op.model(a, b)
				for ia, A := range reprs(a) {
					for ib, B := range reprs(b) {
						if !rc.Take() {
							continue
						}
						f := core.Fields{"op": op.name, "a": a.String(), "b": b.String(), "via": "api", "repr": reprName(ia == 1) + "," + reprName(ib == 1)}
						in := "py." + op.name + "(" + a.String() + "[" + reprName(ia == 1) + "], " + b.String() + "[" + reprName(ib == 1) + "])"
						rc.Guard(f, func() string { return in }, func() { c.check(f, in, exp, observeT(op.api(A, B))) })
						if op.iapi != nil && ia == 0 && ib == 0 {
							f2 := core.Fields{"op": "i" + op.name, "a": a.String(), "b": b.String(), "via": "api", "repr": "nat,nat"}
							in2 := "py.I" + op.name + "(" + a.String() + ", " + b.String() + ")"
							rc.Guard(f2, func() string { return in2 }, func() {
								f2["op"] = op.name
								c.check(f2, in2, exp, observeT(op.iapi(A, B)))
							})
						}
					}
				}
				if rc.Take() {
					var expr string
					if op.sym == "divmod" {
						expr = "divmod(" + lit(a) + ", " + lit(b) + ")"
					} else {
						expr = lit(a) + " " + op.sym + " " + lit(b)
					}
					f := core.Fields{"op": op.name, "a": a.String(), "b": b.String(), "via": "source"}
					rc.Guard(f, func() string { return expr }, func() { c.check(f, expr, exp, observeT(c.ev.Eval(expr))) })
				}
				// augmented assignment in source for the arithmetic operators
				if op.iapi != nil && rc.Take() {
					src := "x = " + lit(a) + "\nx " + op.sym + "= " + lit(b) + "\n"
					f := core.Fields{"op": op.name, "a": a.String(), "b": b.String(), "via": "source-aug"}
					rc.Guard(f, func() string { return src }, func() {
						g, err := c.ev.Exec(src)
						var got Res
						if err != nil {
							got = observeT(nil, err)
						} else {
							got = observeT(g["x"], nil)
						}
						c.check(f, src, exp, got)
					})
				}
			}
		}
	}
	// (2) shifts
	rc.Part = "shift"
	counts := []int64{0, 1, 2, 3, 31, 32, 62, 63, 64, 65, 66, 127, 128, -1, -64}
	for _, a := range L {
		for _, s := range counts {
			if rc.Expired() || rc.Done() {
				return
			}
			sb := big.NewInt(s)
			var expL, expR Res
			if s < 0 {
				expL, expR = excRes("ValueError"), excRes("ValueError")
			} else {
				expL = bres(new(big.Int).Lsh(a, uint(s)))
				expR = bres(new(big.Int).Rsh(a, uint(s))) // big.Int.Rsh is an arithmetic (floor) shift
			}
			for ia, A := range reprs(a) {
				for ib, B := range reprs(sb) {
					if rc.Take() {
						f := core.Fields{"op": "lshift", "a": a.String(), "b": sb.String(), "via": "api", "repr": reprName(ia == 1) + "," + reprName(ib == 1)}
						in := "py.Lshift(" + a.String() + "[" + reprName(ia == 1) + "], " + sb.String() + "[" + reprName(ib == 1) + "])"
						rc.Guard(f, func() string { return in }, func() { c.check(f, in, expL, observeT(py.Lshift(A, B))) })
					}
					if rc.Take() {
						f := core.Fields{"op": "rshift", "a": a.String(), "b": sb.String(), "via": "api", "repr": reprName(ia == 1) + "," + reprName(ib == 1)}
						in := "py.Rshift(" + a.String() + "[" + reprName(ia == 1) + "], " + sb.String() + "[" + reprName(ib == 1) + "])"
						rc.Guard(f, func() string { return in }, func() { c.check(f, in, expR, observeT(py.Rshift(A, B))) })
					}
				}
			}
			if rc.Take() {
				expr := lit(a) + " << " + lit(sb)
				f := core.Fields{"op": "lshift", "a": a.String(), "b": sb.String(), "via": "source"}
				rc.Guard(f, func() string { return expr }, func() { c.check(f, expr, expL, observeT(c.ev.Eval(expr))) })
			}
			if rc.Take() {
				expr := lit(a) + " >> " + lit(sb)
				f := core.Fields{"op": "rshift", "a": a.String(), "b": sb.String(), "via": "source"}
				rc.Guard(f, func() string { return expr }, func() { c.check(f, expr, expR, observeT(c.ev.Eval(expr))) })
			}
		}
	}
	// (3) power and three-argument pow
	rc.Part = "pow"
	exps := []int64{0, 1, 2, 3, 4, 5, 63, 64}
	for _, a := range L {
		for _, e := range exps {
			if rc.Expired() || rc.Done() {
				return
			}
			if a.BitLen() > 130 && e > 5 {
				continue
			}
			eb := big.NewInt(e)
			exp := bres(new(big.Int).Exp(a, eb, nil))
			for ia, A := range reprs(a) {
				for ib, B := range reprs(eb) {
					if rc.Take() {
						f := core.Fields{"op": "pow", "a": a.String(), "b": eb.String(), "via": "api", "repr": reprName(ia == 1) + "," + reprName(ib == 1)}
						in := "py.Pow(" + a.String() + "[" + reprName(ia == 1) + "], " + eb.String() + "[" + reprName(ib == 1) + "], None)"
						rc.Guard(f, func() string { return in }, func() { c.check(f, in, exp, observeT(py.Pow(A, B, py.None))) })
					}
				}
			}
			if rc.Take() {
				expr := lit(a) + " ** " + lit(eb)
				f := core.Fields{"op": "pow", "a": a.String(), "b": eb.String(), "via": "source"}
				rc.Guard(f, func() string { return expr }, func() { c.check(f, expr, exp, observeT(c.ev.Eval(expr))) })
			}
		}
	}
	// three-argument pow over a sub-lattice
	sub := c07Sub(L, rc.Quick())
	es := []*big.Int{big.NewInt(0), big.NewInt(1), big.NewInt(2), big.NewInt(3), big.NewInt(-1), new(big.Int).Lsh(big.NewInt(1), 64), big.NewInt(9223372036854775807)}
	for _, a := range sub {
		for _, e := range es {
			for _, m := range sub {
				if rc.Expired() || rc.Done() {
					return
				}
				var exp Res
				alts := []string{}
				switch {
				case e.Sign() < 0:
					// CPython 3.4 tests the exponent first: TypeError "pow() 2nd argument cannot be
					// negative when 3rd argument specified" (ValueError in later versions; both accepted)
					exp = excRes("TypeError")
					alts = []string{"ValueError"}
				case m.Sign() == 0:
					exp = excRes("ValueError")
				default:
					r := modPow(a, e, new(big.Int).Abs(m)) // result in [0, |m|)
					if m.Sign() < 0 && r.Sign() != 0 {
						r.Add(r, m) // result takes the sign of the modulus
					}
					exp = bres(r)
				}
				if rc.Take() {
					f := core.Fields{"op": "pow3", "a": a.String(), "b": e.String(), "m": m.String(), "via": "api"}
					in := "py.Pow(" + a.String() + ", " + e.String() + ", " + m.String() + ")"
					rc.Guard(f, func() string { return in }, func() { c.check(f, in, exp, observeT(py.Pow(pyInt(a), pyInt(e), pyInt(m))), alts...) })
				}
				if rc.Take() {
					expr := "pow(" + lit(a) + ", " + lit(e) + ", " + lit(m) + ")"
					f := core.Fields{"op": "pow3", "a": a.String(), "b": e.String(), "m": m.String(), "via": "source"}
					rc.Guard(f, func() string { return expr }, func() { c.check(f, expr, exp, observeT(c.ev.Eval(expr)), alts...) })
				}
			}
		}
	}
	// (4) unary operators and text conversions
	rc.Part = "unary"
	type un struct {
		name  string
		api   func(a py.Object) (py.Object, error)
		src   string // %s is the literal
		model func(a *big.Int) Res
	}
	str := func(s string) Res { return valRes("str:" + canonS(s)) }
	uns := []un{
		{"neg", py.Neg, "-%s", func(a *big.Int) Res { return bres(new(big.Int).Neg(a)) }},
		{"pos", py.Pos, "+%s", func(a *big.Int) Res { return bres(a) }},
		{"invert", py.Invert, "~%s", func(a *big.Int) Res { return bres(new(big.Int).Not(a)) }},
		{"abs", py.Abs, "abs(%s)", func(a *big.Int) Res { return bres(new(big.Int).Abs(a)) }},
		{"bool", func(a py.Object) (py.Object, error) { return py.MakeBool(a) }, "bool(%s)", func(a *big.Int) Res { return boolRes(a.Sign() != 0) }},
		{"not", nil, "not %s", func(a *big.Int) Res { return boolRes(a.Sign() == 0) }},
		{"int", py.MakeInt, "int(%s)", func(a *big.Int) Res { return bres(a) }},
		{"str", py.Str, "str(%s)", func(a *big.Int) Res { return str(a.String()) }},
		{"repr", py.Repr, "repr(%s)", func(a *big.Int) Res { return str(a.String()) }},
		{"bin", nil, "bin(%s)", func(a *big.Int) Res { return str(signed(a, "0b", 2)) }},
		{"oct", nil, "oct(%s)", func(a *big.Int) Res { return str(signed(a, "0o", 8)) }},
		{"hex", nil, "hex(%s)", func(a *big.Int) Res { return str(signed(a, "0x", 16)) }},
		{"int-str-roundtrip", nil, "int(str(%s))", func(a *big.Int) Res { return bres(a) }},
		{"neg-neg", nil, "-(-%s)", func(a *big.Int) Res { return bres(a) }},
	}
	for _, a := range L {
		for _, u := range uns {
			if rc.Expired() || rc.Done() {
				return
			}
			exp := u.model(a)
			if u.api != nil {
				for ia, A := range reprs(a) {
					if rc.Take() {
						f := core.Fields{"op": u.name, "a": a.String(), "via": "api", "repr": reprName(ia == 1)}
						in := "py." + u.name + "(" + a.String() + "[" + reprName(ia == 1) + "])"
						rc.Guard(f, func() string { return in }, func() { c.check(f, in, exp, observeTS(u.api(A))) })
					}
				}
			}
			if u.api == nil && (u.name == "bin" || u.name == "oct" || u.name == "hex") {
				// the builtin called with the operand in each representation (a source literal
				// reaches it in one representation only)
				fn := c.ev.ctx.Store().Builtins.Globals[u.name]
				for ia, A := range reprs(a) {
					if rc.Take() {
						f := core.Fields{"op": u.name, "a": a.String(), "via": "api", "repr": reprName(ia == 1)}
						in := u.name + "(" + a.String() + "[" + reprName(ia == 1) + "])"
						rc.Guard(f, func() string { return in }, func() { c.check(f, in, exp, observeTS(py.Call(fn, py.Tuple{A}, nil))) })
					}
				}
			}
			if rc.Take() {
				expr := strings.Replace(u.src, "%s", lit(a), 1)
				f := core.Fields{"op": u.name, "a": a.String(), "via": "source"}
				rc.Guard(f, func() string { return expr }, func() { c.check(f, expr, exp, observeTS(c.ev.Eval(expr))) })
			}
		}
	}
	// (5) text -> int
	rc.Part = "text"
	bases := []int{2, 8, 10, 16, 0}
	prefixes := map[int][]string{2: {"0b", "0B"}, 8: {"0o", "0O"}, 16: {"0x", "0X"}}
	for _, a := range L {
		for _, base := range bases {
			if rc.Expired() || rc.Done() {
				return
			}
			tb := base
			if tb == 0 {
				tb = 10
			}
			digits := new(big.Int).Abs(a).Text(tb)
			var variants []string
			signs := []string{""}
			if a.Sign() < 0 {
				signs = []string{"-"}
			} else {
				signs = []string{"", "+"}
			}
			for _, sg := range signs {
				variants = append(variants, sg+digits, " "+sg+digits+" ", "\t"+sg+digits+"\n")
				if tb == 16 {
					variants = append(variants, sg+strings.ToUpper(digits))
				}
				for _, p := range prefixes[base] {
					variants = append(variants, sg+p+digits)
				}
				if base != 0 && a.Sign() != 0 {
					variants = append(variants, sg+"000"+digits)
				}
			}
			for _, t := range variants {
				if rc.Take() {
					f := core.Fields{"op": "int-from-text", "text": t, "base": itoa(base), "via": "api"}
					in := "py.IntFromString(" + strconvQuote(t) + ", " + itoa(base) + ")"
					rc.Guard(f, func() string { return in }, func() { c.check(f, in, bres(a), observeT(py.IntFromString(t, base))) })
				}
				if rc.Take() {
					expr := "int(" + pyStrLit(t) + ", " + itoa(base) + ")"
					f := core.Fields{"op": "int-from-text", "text": t, "base": itoa(base), "via": "source"}
					rc.Guard(f, func() string { return expr }, func() { c.check(f, expr, bres(a), observeT(c.ev.Eval(expr))) })
				}
			}
			// literal spelling in source (lexer readNumber): base 2/8/16 prefixes and decimal
			if base != 0 && a.Sign() >= 0 {
				var spell string
				switch base {
				case 10:
					spell = digits
				default:
					spell = prefixes[base][0] + digits
				}
				if rc.Take() {
					f := core.Fields{"op": "literal", "text": spell, "base": itoa(base), "via": "source"}
					rc.Guard(f, func() string { return spell }, func() { c.check(f, spell, bres(a), observeT(c.ev.Eval(spell))) })
				}
			}
		}
	}
	// malformed texts
	bad := []string{"", " ", "+", "-", "--5", "++5", "+-5", "-+5", "- 5", "5-", "5 5", "0x", "0b", "0o", "0b2", "0o8", "0xg", "1_0", "1.0", "1e3", "0x-1", "- 0x1", "05", "00", "5L", "1\x005", "0b", "abc", "z"}
	for _, t := range bad {
		for _, base := range []int{10, 0, 16, 2} {
			if rc.Expired() || rc.Done() {
				return
			}
			exp, ok := c07TextModel(t, base)
			var e Res
			if ok {
				e = bres(exp)
			} else {
				e = excRes("ValueError")
			}
			if rc.Take() {
				f := core.Fields{"op": "int-from-text", "text": t, "base": itoa(base), "via": "api"}
				in := "py.IntFromString(" + strconvQuote(t) + ", " + itoa(base) + ")"
				rc.Guard(f, func() string { return in }, func() { c.check(f, in, e, observeT(py.IntFromString(t, base))) })
			}
			if rc.Take() && !strings.Contains(t, "\x00") {
				expr := "int(" + pyStrLit(t) + ", " + itoa(base) + ")"
				f := core.Fields{"op": "int-from-text", "text": t, "base": itoa(base), "via": "source"}
				rc.Guard(f, func() string { return expr }, func() { c.check(f, expr, e, observeT(c.ev.Eval(expr))) })
			}
		}
	}
}

// c07opd is an operand of a history step: a value in one representation (machine word,
// arbitrary precision, or bool), built afresh for every use.
type c07opd struct {
	v    *big.Int
	repr string // nat big bool
}

func (o c07opd) obj() py.Object {
	switch o.repr {
	case "bool":
		return py.NewBool(o.v.Sign() != 0)
	case "big":
		return pyBig(o.v)
	}
	return pyInt(o.v)
}

func (o c07opd) String() string { return o.v.String() + "[" + o.repr + "]" }

// res: what the operand itself must still look like after any operation
func (o c07opd) res() Res {
	if o.repr == "bool" {
		return boolRes(o.v.Sign() != 0)
	}
	return bres(o.v)
}

type c07probe struct {
	op   string
	a, b c07opd
}

// history: for every first step op(A, B) - A, B over a sub-lattice in both representations
// plus True and False, through the plain and the in-place entry point - the result is
// checked, then a fixed set of probe operations (bools converted to integers, floor
// corrections, arbitrary-precision results next to the word limits) is checked, then the
// first result and both operands are read again: integer objects are immutable, so no
// operation may change a value another reference still holds (the interpreter shares
// True, False and internal constants between all computations).
func (c *c07) history(L []*big.Int, ops []c07bin) {
	rc := c.rc
	byName := map[string]c07bin{}
	for _, op := range ops {
		byName[op.name] = op
	}
	steps := append([]c07bin{}, ops...)
	steps = append(steps,
		c07bin{"lshift", "<<", py.Lshift, py.ILshift, func(a, b *big.Int) Res {
			if b.Sign() < 0 {
				return excRes("ValueError")
			}
			return bres(new(big.Int).Lsh(a, uint(b.Int64())))
		}},
		c07bin{"rshift", ">>", py.Rshift, py.IRshift, func(a, b *big.Int) Res {
			if b.Sign() < 0 {
				return excRes("ValueError")
			}
			return bres(new(big.Int).Rsh(a, uint(b.Int64())))
		}},
		c07bin{"pow", "**", func(a, b py.Object) (py.Object, error) { return py.Pow(a, b, py.None) }, nil, func(a, b *big.Int) Res {
			return bres(new(big.Int).Exp(a, b, nil))
		}},
	)
	var H []c07opd
	for _, x := range c07Sub(L, rc.Quick()) {
		H = append(H, c07opd{x, "nat"})
		if x.IsInt64() {
			H = append(H, c07opd{x, "big"})
		}
	}
	H = append(H, c07opd{big.NewInt(1), "bool"}, c07opd{big.NewInt(0), "bool"})
	n := func(s string) *big.Int { x, _ := new(big.Int).SetString(s, 10); return x }
	T, F := c07opd{big.NewInt(1), "bool"}, c07opd{big.NewInt(0), "bool"}
	nat := func(s string) c07opd { return c07opd{n(s), "nat"} }
	bigr := func(s string) c07opd { return c07opd{n(s), "big"} }
	probes := []c07probe{
		{"add", T, nat("0")}, {"add", F, nat("0")}, {"add", nat("0"), T}, {"sub", nat("0"), T}, {"mul", T, nat("3")}, {"add", T, T}, {"and", T, T}, {"or", F, F}, {"xor", T, F},
		{"add", nat("18446744073709551616"), T}, {"sub", T, nat("18446744073709551616")}, {"sub", nat("18446744073709551616"), T}, {"mul", nat("18446744073709551616"), T}, {"mul", nat("18446744073709551616"), F},
		{"or", nat("18446744073709551616"), T}, {"and", nat("18446744073709551617"), T}, {"xor", nat("18446744073709551616"), F}, {"eq", T, nat("1")}, {"eq", F, nat("0")}, {"lt", F, T},
		{"floordiv", nat("-18446744073709551617"), nat("2")}, {"mod", nat("-18446744073709551617"), nat("4294967296")}, {"divmod", bigr("-7"), bigr("2")}, {"floordiv", bigr("-7"), nat("2")}, {"mod", bigr("7"), bigr("-2")},
		{"floordiv", nat("18446744073709551617"), nat("-3")}, {"divmod", nat("-9223372036854775808"), nat("-1")}, {"add", nat("9223372036854775807"), nat("1")}, {"sub", nat("-9223372036854775808"), T},
		{"add", bigr("1"), bigr("1")}, {"mul", bigr("-1"), bigr("-1")}, {"add", nat("1"), nat("1")}, {"sub", nat("0"), nat("1")}, {"mul", nat("2"), nat("2")},
	}
	expected := func(op c07bin, a, b c07opd) Res {
		if (op.name == "lshift" || op.name == "rshift") && b.v.BitLen() > 8 || op.name == "pow" && (b.v.Sign() < 0 || b.v.BitLen() > 3 || a.v.BitLen() > 130) {
			return Res{}
		}
		e := op.model(a.v, b.v)
		if a.repr == "bool" && b.repr == "bool" && (op.name == "and" || op.name == "or" || op.name == "xor") && e.Exc == "" {
			return boolRes(e.Val != "int:0")
		}
		return e
	}
	for _, op := range steps {
		for _, a := range H {
			for _, b := range H {
				for _, inplace := range []bool{false, true} {
					if rc.Expired() || rc.Done() {
						return
					}
					if inplace && op.iapi == nil {
						continue
					}
					exp := expected(op, a, b)
					if exp == (Res{}) {
						continue // outside the model's range (huge shift count or exponent)
					}
					if !rc.Take() {
						continue
					}
					op, a, b, inplace := op, a, b, inplace
					name := op.name
					if inplace {
						name = "i" + name
					}
					f := core.Fields{"op": op.name, "a": a.String(), "b": b.String(), "via": "history", "step": name}
					in := "r = py." + name + "(" + a.String() + ", " + b.String() + "); probes; r, operands again"
					rc.Guard(f, func() string { return in }, func() {
						A, B := a.obj(), b.obj()
						var r py.Object
						var err error
						if inplace {
							r, err = op.iapi(A, B)
						} else {
							r, err = op.api(A, B)
						}
						got := observeT(r, err)
						c.check(f, in, exp, got)
						if !got.matches(exp) {
							return
						}
						dev := func(what, e, o string) {
							rc.Deviate(core.Deviation{Fields: f, Input: in, Expected: e, Observed: o, Sig: "history:" + what})
						}
						for _, p := range probes {
							po := byName[p.op]
							pe := expected(po, p.a, p.b)
							pg := observeT(po.api(p.a.obj(), p.b.obj()))
							if !pg.matches(pe) {
								dev("later-operation-wrong:"+p.op, "afterwards py."+p.op+"("+p.a.String()+", "+p.b.String()+") = "+pe.String(), pg.String())
								return
							}
						}
						if err == nil {
							if again := observeT(r, nil); !again.matches(exp) {
								dev("result-changed-later", "the result is still "+exp.String(), again.String())
								return
							}
						}
						// an in-place operation on an immutable integer returns a new value too
						if ag := observeT(A, nil); !ag.matches(a.res()) {
							dev("left-operand-changed", "left operand still "+a.res().String(), ag.String())
						} else if bg := observeT(B, nil); !bg.matches(b.res()) {
							dev("right-operand-changed", "right operand still "+b.res().String(), bg.String())
						}
					})
				}
			}
		}
	}
}

// c07TextModel: Python's int(text, base) for the malformed-text list (ASCII digits only;
// non-ASCII digits are accepted by CPython but are outside this model => reported as unknown
// and skipped by returning the CPython answer where it is certain).
func c07TextModel(t string, base int) (*big.Int, bool) {
	s := strings.Trim(t, " \t\n\r\x0b\x0c")
	if s == "" {
		return nil, false
	}
	neg := false
	if s[0] == '+' || s[0] == '-' {
		neg = s[0] == '-'
		s = s[1:]
	}
	if s == "" {
		return nil, false
	}
	b := base
	low := strings.ToLower(s)
	if base == 0 {
		switch {
		case strings.HasPrefix(low, "0x"):
			b, s = 16, s[2:]
		case strings.HasPrefix(low, "0o"):
			b, s = 8, s[2:]
		case strings.HasPrefix(low, "0b"):
			b, s = 2, s[2:]
		default:
			b = 10
			if len(s) > 1 && s[0] == '0' {
				// only "0", "00"... are legal with a leading zero in base 0
				if strings.Trim(s, "0") != "" {
					return nil, false
				}
			}
		}
	} else {
		switch {
		case base == 16 && strings.HasPrefix(low, "0x"):
			s = s[2:]
		case base == 8 && strings.HasPrefix(low, "0o"):
			s = s[2:]
		case base == 2 && strings.HasPrefix(low, "0b"):
			s = s[2:]
		}
	}
	if s == "" {
		return nil, false
	}
	for _, r := range s {
		d := -1
		switch {
		case r >= '0' && r <= '9':
			d = int(r - '0')
		case r >= 'a' && r <= 'z':
			d = int(r-'a') + 10
		case r >= 'A' && r <= 'Z':
			d = int(r-'A') + 10
		}
		if d < 0 || d >= b {
			return nil, false
		}
	}
	x, ok := new(big.Int).SetString(s, b)
	if !ok {
		return nil, false
	}
	if neg {
		x.Neg(x)
	}
	return x, true
}

// modPow is square-and-multiply with Euclidean reduction, m > 0, e >= 0.
func modPow(a, e, m *big.Int) *big.Int {
	r := new(big.Int).Mod(big.NewInt(1), m)
	base := new(big.Int).Mod(a, m) // Euclidean: in [0, m)
	for i := e.BitLen() - 1; i >= 0; i-- {
		r.Mul(r, r)
		r.Mod(r, m)
		if e.Bit(i) == 1 {
			r.Mul(r, base)
			r.Mod(r, m)
		}
	}
	return r
}

func observeTS(o py.Object, err error) Res {
	if err == nil {
		if s, ok := o.(py.String); ok {
			return valRes("str:" + canonS(string(s)))
		}
	}
	return observeT(o, err)
}

func canonS(s string) string { return "'" + s + "'" }

func signed(a *big.Int, prefix string, base int) string {
	d := new(big.Int).Abs(a).Text(base)
	if a.Sign() < 0 {
		return "-" + prefix + d
	}
	return prefix + d
}

func pyStrLit(s string) string {
	var b strings.Builder
	b.WriteByte('"')
	for _, r := range s {
		switch {
		case r == '"' || r == '\\':
			b.WriteByte('\\')
			b.WriteRune(r)
		case r == '\n':
			b.WriteString("\\n")
		case r == '\t':
			b.WriteString("\\t")
		case r == '\r':
			b.WriteString("\\r")
		case r < 0x20 || r == 0x7f:
			b.WriteString(fmtf("\\x%02x", r))
		default:
			b.WriteRune(r)
		}
	}
	b.WriteByte('"')
	return b.String()
}

func c07Sub(L []*big.Int, quick bool) []*big.Int {
	want := []string{"0", "1", "-1", "2", "-2", "3", "-3", "2147483648", "-2147483649", "9223372036854775807", "-9223372036854775808", "9223372036854775808", "18446744073709551617", "-18446744073709551616"}
	if quick {
		want = []string{"0", "1", "-1", "2", "3", "-3", "9223372036854775807", "-9223372036854775808", "18446744073709551617"}
	}
	var out []*big.Int
	for _, w := range want {
		x, _ := new(big.Int).SetString(w, 10)
		out = append(out, x)
	}
	return out
}

func init() {
	core.Register(&core.Check{
		ID:    "C07",
		Level: "model_checking",
		Rule: "all ordered pairs of a boundary lattice (0, +-1..3, +-2^k+d for k in {15,16,31,32,53,62,63,64,127}, floor(2^31.5), IntMax/IntMin neighbours, big primes) x 15 binary operators, " +
			"shifts by a fixed count list, ** by small exponents, 3-argument pow over a sub-lattice, 14 unary/conversion forms, text->int in bases 2/8/10/16/0 with sign/space/prefix variants and malformed texts; " +
			"every case through the Go API (operands in natural and in forced big representation, in-place variants) and as compiled source text, compared with math/big. Every case is non-trivial; distinct by input text.",
		Run:         c07Run,
		Assumptions: []string{"math/big is the oracle", "shift counts and exponents are capped so results stay small; operands outside the lattice are not covered"},
		Explanation: "exhaustive enumeration of a bounded operand lattice against a math/big reference model; every model value is compared with the implementation side by side",
	})
}

package props

import (
	"fmt"
	"math/big"
	"strconv"
	"strings"
)

// Reference model for C14: Python 3.4 str as a []rune (one element per code point), every
// method written naively from the library reference / the CPython 3.4 algorithms
// (Objects/unicodeobject.c, Objects/stringlib/*). No byte offsets anywhere.

// c14Space: Python's str.isspace() (Py_UNICODE_ISSPACE), the same set in Unicode 6.3 (Python 3.4)
// and later: bidirectional type WS, B or S or category Zs. U+180E (Zs until Unicode 6.2) is never
// given to the model.
func c14Space(r rune) bool {
	switch {
	case r >= 0x9 && r <= 0xd, r >= 0x1c && r <= 0x20, r == 0x85, r == 0xa0, r == 0x1680,
		r >= 0x2000 && r <= 0x200a, r == 0x2028, r == 0x2029, r == 0x202f, r == 0x205f, r == 0x3000:
		return true
	}
	return false
}

// c14WsCandidates: every white space code point and look-alikes that are not white space.
func c14WsCandidates() []rune {
	out := []rune{}
	for r := rune(0); r <= 0x3000; r++ {
		if c14Space(r) {
			out = append(out, r)
		}
	}
	return append(out, 0, 0x1b, 0x7f, 0x200b, 0x2060, 0xfeff, 'a')
}

func c14EqAt(s, sub []rune, at int) bool {
	if at < 0 || at+len(sub) > len(s) {
		return false
	}
	for i := range sub {
		if s[at+i] != sub[i] {
			return false
		}
	}
	return true
}

// c14Adjust is CPython's ADJUST_INDICES: nil means None/omitted.
func c14Adjust(start, end *int, n int) (int, int) {
	st, en := 0, n
	if end != nil {
		en = *end
		if en > n {
			en = n
		} else if en < 0 {
			en += n
			if en < 0 {
				en = 0
			}
		}
	}
	if start != nil {
		st = *start
		if st < 0 {
			st += n
			if st < 0 {
				st = 0
			}
		}
	}
	return st, en
}

func c14Find(s, sub []rune, start, end *int) int {
	st, en := c14Adjust(start, end, len(s))
	if en-st < len(sub) {
		return -1
	}
	for i := st; i+len(sub) <= en; i++ {
		if c14EqAt(s, sub, i) {
			return i
		}
	}
	return -1
}

func c14Count(s, sub []rune, start, end *int) int {
	st, en := c14Adjust(start, end, len(s))
	if en-st < len(sub) {
		return 0
	}
	if len(sub) == 0 {
		return en - st + 1
	}
	n := 0
	for i := st; i+len(sub) <= en; {
		if c14EqAt(s, sub, i) {
			n++
			i += len(sub)
		} else {
			i++
		}
	}
	return n
}

// c14Tail is CPython's tailmatch: direction -1 = startswith, +1 = endswith.
func c14Tail(s, sub []rune, start, end *int, dir int) bool {
	st, en := c14Adjust(start, end, len(s))
	en -= len(sub)
	if en < st {
		return false
	}
	if len(sub) == 0 {
		return true
	}
	if dir < 0 {
		return c14EqAt(s, sub, st)
	}
	return c14EqAt(s, sub, en)
}

func c14Contains(s, sub []rune) bool {
	for i := 0; i+len(sub) <= len(s); i++ {
		if c14EqAt(s, sub, i) {
			return true
		}
	}
	return false
}

// c14Split: sep == nil is whitespace splitting; ok=false is ValueError (empty separator).
func c14Split(s []rune, sep []rune, sepNone bool, maxsplit int) (out [][]rune, ok bool) {
	max := maxsplit
	if max < 0 {
		max = int(^uint(0) >> 1)
	}
	n := len(s)
	if sepNone {
		i := 0
		for max > 0 {
			max--
			for i < n && c14Space(s[i]) {
				i++
			}
			if i == n {
				break
			}
			j := i
			i++
			for i < n && !c14Space(s[i]) {
				i++
			}
			out = append(out, s[j:i])
		}
		if i < n {
			for i < n && c14Space(s[i]) {
				i++
			}
			if i != n {
				out = append(out, s[i:n])
			}
		}
		return out, true
	}
	if len(sep) == 0 {
		return nil, false
	}
	i := 0
	for max > 0 {
		max--
		pos := -1
		for j := i; j+len(sep) <= n; j++ {
			if c14EqAt(s, sep, j) {
				pos = j
				break
			}
		}
		if pos < 0 {
			break
		}
		out = append(out, s[i:pos])
		i = pos + len(sep)
	}
	out = append(out, s[i:])
	return out, true
}

func c14Join(sep []rune, parts [][]rune) []rune {
	var out []rune
	for i, p := range parts {
		if i > 0 {
			out = append(out, sep...)
		}
		out = append(out, p...)
	}
	return out
}

// c14Strip: chars == nil (charsNone) strips white space.
func c14Strip(s []rune, chars []rune, charsNone bool, left, right bool) []rune {
	in := func(r rune) bool {
		if charsNone {
			return c14Space(r)
		}
		for _, c := range chars {
			if c == r {
				return true
			}
		}
		return false
	}
	i, j := 0, len(s)
	if left {
		for i < j && in(s[i]) {
			i++
		}
	}
	if right {
		for j > i && in(s[j-1]) {
			j--
		}
	}
	return s[i:j]
}

// c14Replace: count < 0 replaces all. For an empty `old` the new text is inserted before every
// code point and at the end (at most count insertions).
func c14Replace(s, old, nw []rune, count int) []rune {
	max := count
	if max < 0 {
		max = int(^uint(0) >> 1)
	}
	var out []rune
	if len(old) == 0 {
		for i := 0; i <= len(s); i++ {
			if max > 0 {
				max--
				out = append(out, nw...)
			}
			if i < len(s) {
				out = append(out, s[i])
			}
		}
		return out
	}
	i := 0
	for i < len(s) {
		if max > 0 && c14EqAt(s, old, i) {
			max--
			out = append(out, nw...)
			i += len(old)
		} else {
			out = append(out, s[i])
			i++
		}
	}
	return out
}

// case mapping: only the cased code points this check uses
var c14UpperMap = map[rune]rune{'a': 'A', 'b': 'B', 'z': 'Z', 0xe9: 0xc9}
var c14LowerMap = map[rune]rune{'A': 'a', 'B': 'b', 'Z': 'z', 0xc9: 0xe9}

func c14Case(s []rune, m map[rune]rune) []rune {
	out := make([]rune, len(s))
	for i, r := range s {
		if t, ok := m[r]; ok {
			out[i] = t
		} else {
			out[i] = r
		}
	}
	return out
}

func c14Cmp(a, b []rune) int {
	for i := 0; i < len(a) && i < len(b); i++ {
		if a[i] != b[i] {
			if a[i] < b[i] {
				return -1
			}
			return 1
		}
	}
	switch {
	case len(a) < len(b):
		return -1
	case len(a) > len(b):
		return 1
	}
	return 0
}

// c14SliceIdx: Python's slice.indices + extraction. a/b/st nil = None. ok=false: ValueError (step 0).
func c14Slice(s []rune, a, b, st *int) (out []rune, ok bool) {
	n := len(s)
	step := 1
	if st != nil {
		step = *st
	}
	if step == 0 {
		return nil, false
	}
	var start, stop int
	if step > 0 {
		start, stop = 0, n
		if a != nil {
			start = *a
			if start < 0 {
				start += n
				if start < 0 {
					start = 0
				}
			} else if start > n {
				start = n
			}
		}
		if b != nil {
			stop = *b
			if stop < 0 {
				stop += n
				if stop < 0 {
					stop = 0
				}
			} else if stop > n {
				stop = n
			}
		}
		for i := start; i < stop; i += step {
			out = append(out, s[i])
		}
		return out, true
	}
	start, stop = n-1, -1
	if a != nil {
		start = *a
		if start < 0 {
			start += n
			if start < 0 {
				start = -1
			}
		} else if start >= n {
			start = n - 1
		}
	}
	if b != nil {
		stop = *b
		if stop < 0 {
			stop += n
			if stop < 0 {
				stop = -1
			}
		} else if stop >= n {
			stop = n - 1
		}
	}
	for i := start; i > stop; i += step {
		out = append(out, s[i])
	}
	return out, true
}

// printability (Py_UNICODE_ISPRINTABLE) of the non-ASCII code points the check uses, where it is
// the same in every Unicode version since 6.0; code points not listed make the repr text
// "uncertain" (only the round trip is checked for them).
var c14Printable = map[rune]bool{
	0xe9: true, 0xc9: true, 0x20ac: true, 0x1f600: true, 0x800: true, 0x10000: true, 0xfffd: true,
	0x80: false, 0xe000: false, 0xffff: false, 0x10ffff: false,
}

// c14StrRepr is unicode_repr of Python 3.4.
func c14StrRepr(s []rune) (text string, certain bool) {
	certain = true
	hasS, hasD := false, false
	for _, r := range s {
		if r == '\'' {
			hasS = true
		}
		if r == '"' {
			hasD = true
		}
	}
	q := '\''
	if hasS && !hasD {
		q = '"'
	}
	var b strings.Builder
	b.WriteRune(q)
	for _, r := range s {
		switch {
		case r == q || r == '\\':
			b.WriteByte('\\')
			b.WriteRune(r)
		case r == '\t':
			b.WriteString(`\t`)
		case r == '\n':
			b.WriteString(`\n`)
		case r == '\r':
			b.WriteString(`\r`)
		case r < ' ' || r == 0x7f:
			fmt.Fprintf(&b, `\x%02x`, r)
		case r < 0x7f:
			b.WriteRune(r)
		default:
			p, known := c14Printable[r]
			if !known {
				certain = false
			}
			switch {
			case p:
				b.WriteRune(r)
			case r <= 0xff:
				fmt.Fprintf(&b, `\x%02x`, r)
			case r <= 0xffff:
				fmt.Fprintf(&b, `\u%04x`, r)
			default:
				fmt.Fprintf(&b, `\U%08x`, r)
			}
		}
	}
	b.WriteRune(q)
	return b.String(), certain
}

// c14BytesRepr is bytes_repr of Python 3.4.
func c14BytesRepr(s []byte) string {
	hasS, hasD := false, false
	for _, c := range s {
		if c == '\'' {
			hasS = true
		}
		if c == '"' {
			hasD = true
		}
	}
	q := byte('\'')
	if hasS && !hasD {
		q = '"'
	}
	var b strings.Builder
	b.WriteByte('b')
	b.WriteByte(q)
	for _, c := range s {
		switch {
		case c == q || c == '\\':
			b.WriteByte('\\')
			b.WriteByte(c)
		case c == '\t':
			b.WriteString(`\t`)
		case c == '\n':
			b.WriteString(`\n`)
		case c == '\r':
			b.WriteString(`\r`)
		case c < ' ' || c >= 0x7f:
			fmt.Fprintf(&b, `\x%02x`, c)
		default:
			b.WriteByte(c)
		}
	}
	b.WriteByte(q)
	return b.String()
}

// ---- literal spellings (written by the check, never by gpython) ----

func c14EscRune(b *strings.Builder, r rune) {
	switch {
	case r <= 0xff:
		fmt.Fprintf(b, `\x%02x`, r)
	case r <= 0xffff:
		fmt.Fprintf(b, `\u%04x`, r)
	default:
		fmt.Fprintf(b, `\U%08x`, r)
	}
}

// c14Show: single-quoted, ASCII only: printable ASCII raw (quote and backslash escaped), \n, the
// rest \xhh \uXXXX \UXXXXXXXX. Used for Fields/Input and as one literal spelling.
func c14Show(s []rune) string {
	var b strings.Builder
	b.WriteByte('\'')
	for _, r := range s {
		switch {
		case r == '\'' || r == '\\':
			b.WriteByte('\\')
			b.WriteRune(r)
		case r == '\n':
			b.WriteString(`\n`)
		case r >= 0x20 && r < 0x7f:
			b.WriteRune(r)
		default:
			c14EscRune(&b, r)
		}
	}
	b.WriteByte('\'')
	return b.String()
}

// c14LitEsc: every code point spelled as a numeric escape.
func c14LitEsc(s []rune) string {
	var b strings.Builder
	b.WriteByte('\'')
	for _, r := range s {
		c14EscRune(&b, r)
	}
	b.WriteByte('\'')
	return b.String()
}

// c14LitRaw: double-quoted; code points >= 0xa0 as raw UTF-8, short escapes for the rest.
func c14LitRaw(s []rune) string {
	var b strings.Builder
	b.WriteByte('"')
	for _, r := range s {
		switch {
		case r == '"' || r == '\\':
			b.WriteByte('\\')
			b.WriteRune(r)
		case r == '\n':
			b.WriteString(`\n`)
		case r == 0:
			b.WriteString(`\0`)
		case r >= 0x20 && r < 0x7f, r >= 0xa0:
			b.WriteRune(r)
		default:
			c14EscRune(&b, r)
		}
	}
	b.WriteByte('"')
	return b.String()
}

// c14LitTriple: triple-quoted with a raw newline; quote, backslash and NUL escaped.
func c14LitTriple(s []rune) string {
	var b strings.Builder
	b.WriteString(`'''`)
	for _, r := range s {
		switch {
		case r == '\'' || r == '\\':
			b.WriteByte('\\')
			b.WriteRune(r)
		case r == '\n', r >= 0x20 && r < 0x7f, r >= 0xa0:
			b.WriteRune(r)
		default:
			c14EscRune(&b, r)
		}
	}
	b.WriteString(`'''`)
	return b.String()
}

func c14BytesShow(s []byte) string {
	var b strings.Builder
	b.WriteString(`b'`)
	for _, c := range s {
		switch {
		case c == '\'' || c == '\\':
			b.WriteByte('\\')
			b.WriteByte(c)
		case c >= 0x20 && c < 0x7f:
			b.WriteByte(c)
		default:
			fmt.Fprintf(&b, `\x%02x`, c)
		}
	}
	b.WriteByte('\'')
	return b.String()
}

func c14BytesEsc(s []byte) string {
	var b strings.Builder
	b.WriteString(`b"`)
	for _, c := range s {
		fmt.Fprintf(&b, `\x%02x`, c)
	}
	b.WriteByte('"')
	return b.String()
}

// ---- values for the repr round trip ----

type c14val struct {
	kind  byte // 's' str, 'y' bytes, 'i' int, 'f' float, 't' tuple, 'l' list
	s     []rune
	y     []byte
	i     *big.Int
	f     float64
	items []*c14val
}

func (v *c14val) depth() int {
	d := 0
	for _, x := range v.items {
		if e := x.depth(); e > d {
			d = e
		}
	}
	if v.kind == 't' || v.kind == 'l' {
		return d + 1
	}
	return 0
}

// lit is the check's own Python spelling of the value.
func (v *c14val) lit() string {
	switch v.kind {
	case 's':
		return c14Show(v.s)
	case 'y':
		return c14BytesShow(v.y)
	case 'i':
		return v.i.String()
	case 'f':
		return strconv.FormatFloat(v.f, 'e', -1, 64)
	}
	var parts []string
	for _, x := range v.items {
		parts = append(parts, x.lit())
	}
	if v.kind == 't' {
		if len(parts) == 1 {
			return "(" + parts[0] + ",)"
		}
		return "(" + strings.Join(parts, ", ") + ")"
	}
	return "[" + strings.Join(parts, ", ") + "]"
}

func (v *c14val) kindName() string {
	switch v.kind {
	case 's':
		return "str"
	case 'y':
		return "bytes"
	case 'i':
		return "int"
	case 'f':
		return "float"
	case 't':
		return "tuple"
	}
	return "list"
}

package props

import (
	"fmt"
	"math/big"
	"strings"

	"github.com/go-python/gpython/py"
	"verif/internal/harness"
)

// Res is a typed observation: a canonical value or an exception type name.
type Res struct {
	Val string // canonical value ("" if exception)
	Exc string // exception type name ("" if value)
}

func (r Res) String() string {
	if r.Exc != "" {
		return "raises " + r.Exc
	}
	return r.Val
}

func valRes(s string) Res { return Res{Val: s} }
func excRes(s string) Res { return Res{Exc: s} }

// observe turns an (object, error) pair from the real implementation into a Res.
func observe(o py.Object, err error) Res {
	if err != nil {
		t, _, _, _ := harness.ExcInfo(err)
		return Res{Exc: t}
	}
	if o == nil {
		return Res{Val: "<nil>"}
	}
	return Res{Val: harness.Canon(o)}
}

// observeT is observe with the result's type name prefixed.
func observeT(o py.Object, err error) Res {
	if err != nil {
		t, _, _, _ := harness.ExcInfo(err)
		return Res{Exc: t}
	}
	if o == nil {
		return Res{Val: "<nil>"}
	}
	return Res{Val: typeClass(o) + ":" + harness.Canon(o)}
}

func typeClass(o py.Object) string {
	switch o.(type) {
	case py.Int, *py.BigInt:
		return "int"
	case py.Bool:
		return "bool"
	case py.Float:
		return "float"
	}
	return o.Type().Name
}

// excMatches: observed exception type must be expected or (for families) a listed alternative.
func (r Res) matches(exp Res, alts ...string) bool {
	if exp.Exc != "" {
		if r.Exc == exp.Exc {
			return true
		}
		for _, a := range alts {
			if r.Exc == a {
				return true
			}
		}
		return false
	}
	return r.Exc == "" && r.Val == exp.Val
}

// evaluator runs expressions / small programs in one long-lived context per worker.
type evaluator struct {
	ctx py.Context
	vh  *py.Module
}

func newEvaluator() *evaluator {
	ctx := py.NewContext(py.ContextOpts{SysArgs: []string{"t"}, SysPaths: []string{}})
	vhm, err := ctx.ModuleInit(py.GetModuleImpl("vh"))
	if err != nil {
		panic(err)
	}
	return &evaluator{ctx: ctx, vh: vhm}
}

// Eval compiles expr in eval mode and runs it in fresh globals.
func (e *evaluator) Eval(expr string) (py.Object, error) {
	code, err := py.Compile(expr, "<e>", py.EvalMode, 0, true)
	if err != nil {
		return nil, err
	}
	g := py.StringDict{"vh": e.vh, "__builtins__": e.ctx.Store().Builtins}
	return e.ctx.RunCode(code, g, g, nil)
}

// Exec runs a program in fresh globals and returns them.
func (e *evaluator) Exec(src string) (py.StringDict, error) {
	code, err := py.Compile(src, "<e>", py.ExecMode, 0, true)
	if err != nil {
		return nil, err
	}
	g := py.StringDict{"vh": e.vh, "__builtins__": e.ctx.Store().Builtins}
	_, err = e.ctx.RunCode(code, g, g, nil)
	return g, err
}

func bigStr(x *big.Int) string { return x.String() }

func pyInt(x *big.Int) py.Object {
	if x.IsInt64() {
		return py.Int(x.Int64())
	}
	return (*py.BigInt)(new(big.Int).Set(x))
}

// pyBig always gives the arbitrary-precision representation (non-normalised when the
// value fits a machine word).
func pyBig(x *big.Int) py.Object { return (*py.BigInt)(new(big.Int).Set(x)) }

func short(s string, n int) string {
	if len(s) > n {
		return s[:n] + "…"
	}
	return s
}

func fmtf(format string, a ...interface{}) string { return fmt.Sprintf(format, a...) }

func join(xs []string, sep string) string { return strings.Join(xs, sep) }

func excInfo(err error) (string, []string, string, []harness.TB) { return harness.ExcInfo(err) }

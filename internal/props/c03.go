package props

import (
	"fmt"
	"sort"
	"strings"

	"github.com/go-python/gpython/py"
	"verif/explore"
	"verif/internal/core"
	"verif/internal/harness"
	"verif/verifrt"
)

// C03: every name resolves to the binding Python's lexical scoping selects.

type sckind int

const (
	scModule sckind = iota
	scDef
	scLambda
	scClass
	scListComp
	scGenExp
)

func (k sckind) String() string {
	return [...]string{"module", "def", "lambda", "class", "listcomp", "genexp"}[k]
}

func (k sckind) funcLike() bool {
	return k == scDef || k == scLambda || k == scListComp || k == scGenExp
}
func (k sckind) exprOnly() bool { return k == scLambda || k == scListComp || k == scGenExp }

type ikind int

const (
	iBind ikind = iota
	iUse
	iGlobal
	iNonlocal
	iDel
	iChild
	iImport    // bind the name by an import statement: from vh import K7 as <name>
	iImportDot // bind the name by `import <name>.q.m` (what is bound is the part before the FIRST dot)
	iLocals    // log the one-letter names locals() shows (statement scopes only)
	iRecall    // call again a function defined earlier in an enclosing scope
	iLocalsSet // locals()['<name>'] = <id>: binds in a module or class namespace, changes nothing in a function
)

type sitem struct {
	k      ikind
	name   string
	id     int
	child  *sscope
	later  bool    // child function: called at the end of the enclosing scope instead of right away
	nocall bool    // child function: only called through iRecall items
	ref    *sscope // iRecall: the function to call
}

type sscope struct {
	kind    sckind
	id      int
	param   string // "" or the name of its single parameter
	pkind   int    // how param is declared and passed (c03Params)
	defUse  string // "" or a name used as the default value of an extra parameter `p`
	dupParm bool   // def f(x, x): duplicate parameter
	items   []*sitem
	parent  *sscope
	// resolver output
	res map[string]string // name -> local | free | global | classlocal | classderef
}

// c03Params: the ways the one interesting parameter can be declared. %s is its name in
// decl, the argument value in call, and val is the value the parameter then holds.
var c03Params = []struct{ decl, call, val string }{
	{"%s", "%[1]s", "%s"},
	{"*, %s", "%[2]s=%[1]s", "%s"},
	{"a0, *r0, %s, **k0", "0, %[2]s=%[1]s", "%s"},
	{"*%s", "%[1]s", "(%s)"},
	{"**%s", "q=%[1]s", "{'q':%s}"},
	{"a0, *r0, k0, **%s", "0, k0=0, q=%[1]s", "{'q':%s}"},
	{"a0, *%s, k0", "0, %[1]s, k0=0", "(%s)"},
	{"a0, *, k0=0, **%s", "0, q=%[1]s", "{'q':%s}"},
}

func (s *sscope) paramDecl() string { return fmt.Sprintf(c03Params[s.pkind].decl, s.param) }
func (s *sscope) paramCall(v string) string {
	return fmt.Sprintf(c03Params[s.pkind].call, v, s.param)
}
func (s *sscope) paramVal(v string) string { return fmt.Sprintf(c03Params[s.pkind].val, v) }

// ---------- rendering ----------

type c03r struct {
	b   strings.Builder
	nid int
}

func (r *c03r) id() int { r.nid++; return r.nid }

func (r *c03r) line(ind int, s string) { r.b.WriteString(strings.Repeat("    ", ind) + s + "\n") }

func (r *c03r) useStmt(ind int, it *sitem) {
	it.id = r.id()
	r.line(ind, "try:")
	r.line(ind+1, fmt.Sprintf("vh.log((%d, %s))", it.id, it.name))
	r.line(ind, "except NameError:")
	r.line(ind+1, fmt.Sprintf("vh.log((%d, 'unbound'))", it.id))
}

// expression for an expression-only scope body: a tuple of logging calls and child expressions
func (r *c03r) exprBody(s *sscope) string {
	var parts []string
	for _, it := range s.items {
		switch it.k {
		case iUse:
			it.id = r.id()
			parts = append(parts, fmt.Sprintf("vh.log((%d, %s))", it.id, it.name))
		case iChild:
			parts = append(parts, r.exprScope(it.child))
		}
	}
	if len(parts) == 0 {
		return "None"
	}
	return "(" + strings.Join(parts, ", ") + ",)"
}

// an expression-only child used as an expression: it is evaluated (called) immediately
func (r *c03r) exprScope(s *sscope) string {
	s.id = r.id()
	switch s.kind {
	case scLambda:
		if s.param != "" {
			return fmt.Sprintf("(lambda %s: %s)(%s)", s.paramDecl(), r.exprBody(s), s.paramCall(itoa(1000+s.id)))
		}
		return fmt.Sprintf("(lambda: %s)()", r.exprBody(s))
	case scListComp:
		return fmt.Sprintf("[%s for i%d in range(1)]", r.exprBody(s), s.id)
	case scGenExp:
		return fmt.Sprintf("list(%s for i%d in range(1))", r.exprBody(s), s.id)
	}
	return "None"
}

func (r *c03r) body(ind int, s *sscope) {
	var later []*sitem
	n := 0
	for _, it := range s.items {
		n++
		switch it.k {
		case iBind:
			it.id = r.id()
			r.line(ind, fmt.Sprintf("%s = %d", it.name, it.id))
		case iUse:
			r.useStmt(ind, it)
		case iGlobal:
			r.line(ind, "global "+it.name)
		case iNonlocal:
			r.line(ind, "nonlocal "+it.name)
		case iDel:
			it.id = r.id()
			r.line(ind, "try:")
			r.line(ind+1, "del "+it.name)
			r.line(ind, "except NameError:")
			r.line(ind+1, fmt.Sprintf("vh.log((%d, 'delunbound'))", it.id))
		case iImport:
			r.line(ind, "from vh import K7 as "+it.name)
		case iImportDot:
			r.line(ind, "import "+it.name+".q.m")
		case iLocals:
			it.id = r.id()
			r.line(ind, fmt.Sprintf("vh.log((%d, sorted([k for k in locals() if len(k) == 1])))", it.id))
		case iRecall:
			r.line(ind, fmt.Sprintf("f%d()", it.ref.id))
		case iLocalsSet:
			it.id = r.id()
			r.line(ind, fmt.Sprintf("locals()['%s'] = %d", it.name, it.id))
		case iChild:
			c := it.child
			switch c.kind {
			case scDef:
				c.id = r.id()
				var ps []string
				if c.param != "" {
					ps = append(ps, c.paramDecl())
					if c.dupParm {
						ps = append(ps, c.param)
					}
				}
				fn := fmt.Sprintf("f%d", c.id)
				if c.defUse != "" {
					ps = append(ps, "p="+c.defUse)
					r.line(ind, "try:")
					r.line(ind+1, fmt.Sprintf("def %s(%s):", fn, strings.Join(ps, ", ")))
					r.line(ind+2, fmt.Sprintf("vh.log((%d, p))", c.id))
					r.body(ind+2, c)
					r.line(ind, "except NameError:")
					r.line(ind+1, fmt.Sprintf("vh.log((%d, 'defunbound'))", c.id))
					r.line(ind+1, fn+" = None")
				} else {
					r.line(ind, fmt.Sprintf("def %s(%s):", fn, strings.Join(ps, ", ")))
					r.line(ind+1, "pass")
					r.body(ind+1, c)
				}
				if it.nocall {
				} else if it.later {
					later = append(later, it)
				} else {
					r.call(ind, c)
				}
			case scClass:
				c.id = r.id()
				r.line(ind, fmt.Sprintf("class C%d:", c.id))
				r.line(ind+1, "pass")
				r.body(ind+1, c)
			default:
				// expression scopes evaluated right here; a NameError inside propagates to this statement
				id := r.id()
				e := r.exprScope(c)
				r.line(ind, "try:")
				r.line(ind+1, e)
				r.line(ind, "except NameError:")
				r.line(ind+1, fmt.Sprintf("vh.log((%d, 'unbound'))", id))
				it.id = id
			}
		}
	}
	for _, it := range later {
		r.call(ind, it.child)
	}
	_ = n
}

func (r *c03r) call(ind int, c *sscope) {
	fn := fmt.Sprintf("f%d", c.id)
	arg := ""
	if c.param != "" {
		arg = c.paramCall(itoa(1000 + c.id))
	}
	if c.defUse != "" {
		r.line(ind, "if "+fn+":")
		r.line(ind+1, fmt.Sprintf("%s(%s)", fn, arg))
	} else {
		r.line(ind, fmt.Sprintf("%s(%s)", fn, arg))
	}
}

// ---------- resolver (written from the language reference / symtable rules) ----------

type c03info struct {
	bound, global, nonlocal, used map[string]bool
}

func c03Collect(s *sscope) *c03info {
	in := &c03info{bound: map[string]bool{}, global: map[string]bool{}, nonlocal: map[string]bool{}, used: map[string]bool{}}
	if s.param != "" {
		in.bound[s.param] = true
	}
	if s.defUse != "" {
		in.bound["p"] = true
	}
	for _, it := range s.items {
		switch it.k {
		case iBind, iDel, iImport, iImportDot:
			in.bound[it.name] = true
		case iUse:
			in.used[it.name] = true
		case iGlobal:
			in.global[it.name] = true
		case iNonlocal:
			in.nonlocal[it.name] = true
		case iChild:
			if it.child.defUse != "" {
				in.used[it.child.defUse] = true
			}
		}
	}
	return in
}

// c03Static returns "" or the reason the program must be rejected at compile time.
func c03Static(s *sscope) string {
	in := c03Collect(s)
	if s.dupParm {
		return "duplicate parameter"
	}
	// declarations after a use/assignment in the same scope
	seen := map[string]bool{}
	if s.param != "" {
		seen[s.param] = true
	}
	for _, it := range s.items {
		switch it.k {
		case iBind, iUse, iDel, iImport, iImportDot:
			seen[it.name] = true
		case iChild:
			// a default value expression is a use in THIS scope
			if it.child.defUse != "" {
				seen[it.child.defUse] = true
			}
		case iGlobal, iNonlocal:
			if seen[it.name] && s.param != it.name {
				return "declared after use/assignment"
			}
		}
	}
	for n := range in.global {
		if n == s.param {
			return "parameter and global"
		}
		if in.nonlocal[n] {
			return "nonlocal and global"
		}
	}
	for n := range in.nonlocal {
		if n == s.param {
			return "parameter and nonlocal"
		}
		if s.kind == scModule {
			return "nonlocal at module level"
		}
		// needs a binding in an enclosing function scope
		found := false
		for p := s.parent; p != nil; p = p.parent {
			if !p.kind.funcLike() {
				continue
			}
			pi := c03Collect(p)
			if pi.global[n] {
				break // an enclosing `global n` hides outer function bindings
			}
			if pi.bound[n] || pi.nonlocal[n] {
				found = true
				break
			}
		}
		if !found {
			return "no binding for nonlocal"
		}
	}
	for _, it := range s.items {
		if it.k == iChild {
			if r := c03Static(it.child); r != "" {
				return r
			}
		}
	}
	return ""
}

// ---------- reference interpreter ----------

type cellv struct {
	val   string
	bound bool
}

type c03frame struct {
	scope  *sscope
	info   *c03info
	vars   map[string]*cellv // function locals (cells) or class namespace
	parent *c03frame         // lexically enclosing frame
	in     *c03interp
}

type c03interp struct {
	log      []string
	globals  map[string]*cellv
	usedCell bool // some name resolved to an enclosing function's cell
}

type nameErr struct{}

func (nameErr) Error() string { return "NameError" }

// lookupFree finds the cell of the nearest enclosing function-like frame that owns name;
// ok=false means the name is global (implicit).
func (f *c03frame) enclosingCell(name string) (*cellv, bool) {
	for p := f.parent; p != nil; p = p.parent {
		if !p.scope.kind.funcLike() {
			continue
		}
		if p.info.global[name] {
			return nil, false
		}
		if p.info.nonlocal[name] {
			return p.enclosingCell(name)
		}
		if p.info.bound[name] {
			if f.in != nil {
				f.in.usedCell = true
			}
			c := p.vars[name]
			if c == nil {
				c = &cellv{}
				p.vars[name] = c
			}
			return c, true
		}
	}
	return nil, false
}

// ref resolves a name occurrence in frame f to a storage cell plus, for class bodies,
// the fallback chain.
func (in *c03interp) load(f *c03frame, name string) (string, error) {
	s := f.scope
	get := func(c *cellv) (string, error) {
		if c == nil || !c.bound {
			return "", nameErr{}
		}
		return c.val, nil
	}
	// a global lookup falls back to the builtins whenever the module does not bind the name NOW
	getG := func(c *cellv) (string, error) {
		if c == nil || !c.bound {
			if v, ok := c03BuiltinNames[name]; ok {
				return v, nil
			}
		}
		return get(c)
	}
	switch {
	case s.kind == scModule:
		return getG(in.globals[name])
	case f.info.global[name]:
		return getG(in.globals[name])
	case f.info.nonlocal[name]:
		c, ok := f.enclosingCell(name)
		if !ok {
			return "", nameErr{}
		}
		return get(c)
	case s.kind == scClass:
		if f.info.bound[name] {
			// class-local name: class namespace, then globals (never the enclosing function)
			if c := f.vars[name]; c != nil && c.bound {
				return c.val, nil
			}
			return getG(in.globals[name])
		}
		// free in the class body: the class namespace first (it can only have got there
		// dynamically), then the enclosing function's cell, else global
		if c := f.vars[name]; c != nil && c.bound {
			return c.val, nil
		}
		if c, ok := f.enclosingCell(name); ok {
			return get(c)
		}
		return getG(in.globals[name])
	default: // function-like
		if f.info.bound[name] {
			return get(f.vars[name])
		}
		if c, ok := f.enclosingCell(name); ok {
			return get(c)
		}
		return getG(in.globals[name])
	}
}

// names the builtins module binds, with the canonical form of their value
var c03BuiltinNames = map[string]string{"abs": "<method>"}

func (in *c03interp) target(f *c03frame, name string) *cellv {
	s := f.scope
	mk := func(m map[string]*cellv) *cellv {
		c := m[name]
		if c == nil {
			c = &cellv{}
			m[name] = c
		}
		return c
	}
	switch {
	case s.kind == scModule || f.info.global[name]:
		return mk(in.globals)
	case f.info.nonlocal[name]:
		c, _ := f.enclosingCell(name)
		if c == nil {
			c = &cellv{}
		}
		return c
	default:
		return mk(f.vars)
	}
}

// c03Owner: the function scope whose variable a reference to name in scope s denotes
// (nil: a global or class-local name, never a cell).
func c03Owner(s *sscope, name string) *sscope {
	info := c03Collect(s)
	switch {
	case s.kind == scModule, info.global[name]:
		return nil
	case info.nonlocal[name]:
	case info.bound[name]:
		if s.kind.funcLike() {
			return s
		}
		return nil // class-local
	}
	for p := s.parent; p != nil; p = p.parent {
		if !p.kind.funcLike() {
			continue
		}
		pi := c03Collect(p)
		if pi.global[name] {
			return nil
		}
		if pi.nonlocal[name] {
			continue
		}
		if pi.bound[name] {
			return p
		}
	}
	return nil
}

// c03Free: the free variables of function scope s: every name referenced in s or in a scope
// nested in it that denotes a variable of a function enclosing s.
func c03Free(s *sscope) map[string]bool {
	anc := map[*sscope]bool{}
	for p := s.parent; p != nil; p = p.parent {
		anc[p] = true
	}
	out := map[string]bool{}
	var walk func(d *sscope)
	walk = func(d *sscope) {
		info := c03Collect(d)
		for _, set := range []map[string]bool{info.bound, info.used, info.nonlocal} {
			for n := range set {
				if o := c03Owner(d, n); o != nil && anc[o] {
					out[n] = true
				}
			}
		}
		for _, it := range d.items {
			if it.k == iChild {
				walk(it.child)
			}
		}
	}
	walk(s)
	return out
}

// localsOf: the one-letter names locals() shows in frame f, sorted: the namespace of a module
// or class body; the bound local and cell variables of a function plus its bound free variables.
func (in *c03interp) localsOf(f *c03frame) []string {
	set := map[string]bool{}
	add := func(m map[string]*cellv) {
		for n, c := range m {
			if c != nil && c.bound && len(n) == 1 {
				set[n] = true
			}
		}
	}
	switch {
	case f.scope.kind == scModule:
		add(in.globals)
	case f.scope.kind == scClass:
		add(f.vars)
	default:
		for n, c := range f.vars {
			if c != nil && c.bound && len(n) == 1 && !f.info.global[n] && !f.info.nonlocal[n] {
				set[n] = true
			}
		}
		for n := range c03Free(f.scope) {
			if c, ok := f.enclosingCell(n); ok && c.bound {
				set[n] = true
			}
		}
	}
	var out []string
	for n := range set {
		out = append(out, "'"+n+"'")
	}
	sort.Strings(out)
	return out
}

func (in *c03interp) newFrame(s *sscope, parent *c03frame) *c03frame {
	return &c03frame{scope: s, info: c03Collect(s), vars: map[string]*cellv{}, parent: parent, in: in}
}

// run executes the items of scope s in frame f; an escaping NameError is returned.
func (in *c03interp) run(f *c03frame) error {
	s := f.scope
	var later []*sitem
	laterFrames := map[*sitem]bool{}
	for _, it := range s.items {
		switch it.k {
		case iBind:
			c := in.target(f, it.name)
			c.val, c.bound = itoa(it.id), true
		case iImport:
			c := in.target(f, it.name)
			c.val, c.bound = "7", true
		case iImportDot:
			c := in.target(f, it.name)
			c.val, c.bound = "<module>", true
		case iUse:
			v, err := in.load(f, it.name)
			if s.kind.exprOnly() {
				if err != nil {
					return err // propagates out of the expression
				}
				in.log = append(in.log, fmt.Sprintf("(%d,%s)", it.id, v))
			} else {
				if err != nil {
					in.log = append(in.log, fmt.Sprintf("(%d,'unbound')", it.id))
				} else {
					in.log = append(in.log, fmt.Sprintf("(%d,%s)", it.id, v))
				}
			}
		case iDel:
			c := in.target(f, it.name)
			if !c.bound {
				in.log = append(in.log, fmt.Sprintf("(%d,'delunbound')", it.id))
			} else {
				c.bound = false
			}
		case iLocals:
			in.log = append(in.log, fmt.Sprintf("(%d,[%s])", it.id, strings.Join(in.localsOf(f), ",")))
		case iLocalsSet:
			switch s.kind {
			case scModule:
				in.globals[it.name] = &cellv{val: itoa(it.id), bound: true}
			case scClass:
				f.vars[it.name] = &cellv{val: itoa(it.id), bound: true}
			}
			// in a function locals() is a snapshot: storing into it binds nothing
		case iRecall:
			for p := f; p != nil; p = p.parent {
				if p.scope == it.ref.parent {
					in.callDef(it.ref, p)
					break
				}
			}
		case iChild:
			c := it.child
			switch c.kind {
			case scDef:
				defOK := true
				var defVal string
				if c.defUse != "" {
					v, err := in.load(f, c.defUse)
					if err != nil {
						in.log = append(in.log, fmt.Sprintf("(%d,'defunbound')", c.id))
						defOK = false
					}
					defVal = v
				}
				c.res = map[string]string{"ok": fmt.Sprint(defOK), "def": defVal}
				if !defOK {
					continue
				}
				if it.nocall {
				} else if it.later {
					later = append(later, it)
					laterFrames[it] = true
				} else {
					in.callDef(c, f)
				}
			case scClass:
				cf := in.newFrame(c, f)
				if err := in.run(cf); err != nil {
					return err
				}
			default:
				// expression scope, evaluated now; NameError is caught by the enclosing try
				// statement when the enclosing scope is a statement scope
				err := in.evalExprScope(c, f)
				if err != nil {
					if s.kind.exprOnly() {
						return err
					}
					in.log = append(in.log, fmt.Sprintf("(%d,'unbound')", it.id))
				}
			}
		}
	}
	for _, it := range later {
		in.callDef(it.child, f)
	}
	return nil
}

func (in *c03interp) callDef(c *sscope, defFrame *c03frame) {
	cf := in.newFrame(c, defFrame)
	if c.param != "" {
		cf.vars[c.param] = &cellv{val: c.paramVal(itoa(1000 + c.id)), bound: true}
	}
	if c.defUse != "" {
		cf.vars["p"] = &cellv{val: c.res["def"], bound: true}
		in.log = append(in.log, fmt.Sprintf("(%d,%s)", c.id, c.res["def"]))
	}
	in.run(cf) // statement scopes catch their own NameErrors
}

func (in *c03interp) evalExprScope(c *sscope, parent *c03frame) error {
	cf := in.newFrame(c, parent)
	if c.kind == scLambda && c.param != "" {
		cf.vars[c.param] = &cellv{val: c.paramVal(itoa(1000 + c.id)), bound: true}
	}
	return in.run(cf)
}

// ---------- enumeration ----------

type c03gen struct {
	rc       *core.RunCtx
	names    []string
	maxDepth int
}

// scopes enumerates the item lists of a scope of the given kind using at most budget items.
func (g *c03gen) items(kind sckind, depth, budget int, k func(items []*sitem, used int)) {
	k(nil, 0)
	if budget < 1 {
		return
	}
	g.item(kind, depth, budget, func(it *sitem, u int) {
		g.items(kind, depth, budget-u, func(rest []*sitem, u2 int) {
			k(append([]*sitem{it}, rest...), u+u2)
		})
	})
}

func (g *c03gen) item(kind sckind, depth, budget int, k func(it *sitem, used int)) {
	if g.rc.Expired() {
		return
	}
	for _, n := range g.names {
		k(&sitem{k: iUse, name: n}, 1)
		if !kind.exprOnly() {
			k(&sitem{k: iBind, name: n}, 1)
			k(&sitem{k: iDel, name: n}, 1)
			k(&sitem{k: iGlobal, name: n}, 1)
			k(&sitem{k: iNonlocal, name: n}, 1)
		}
	}
	if !kind.exprOnly() {
		k(&sitem{k: iLocals}, 1)
	}
	if depth >= g.maxDepth || budget < 2 {
		return
	}
	kinds := []sckind{scDef, scLambda, scClass, scListComp, scGenExp}
	if kind.exprOnly() {
		kinds = []sckind{scLambda, scListComp, scGenExp}
	}
	for _, ck := range kinds {
		type variant struct {
			param, defUse string
			dup, later    bool
			pkind         int
		}
		vs := []variant{{}}
		switch ck {
		case scDef:
			vs = append(vs, variant{later: true})
			for _, n := range g.names[:1] {
				vs = append(vs, variant{param: n}, variant{defUse: n}, variant{param: n, later: true}, variant{param: n, dup: true})
				for pk := 1; pk < len(c03Params); pk++ {
					if g.rc.Quick() && pk != 1 && pk != 5 {
						continue // every declaration form is in the "params" family
					}
					vs = append(vs, variant{param: n, pkind: pk})
				}
			}
		case scLambda:
			vs = append(vs, variant{param: g.names[0]}, variant{param: g.names[0], pkind: 1}, variant{param: g.names[0], pkind: 5})
		}
		for _, v := range vs {
			v := v
			ck := ck
			g.items(ck, depth+1, budget-1, func(items []*sitem, u int) {
				if u == 0 && !v.dup {
					return // an empty child tells nothing
				}
				c := &sscope{kind: ck, param: v.param, pkind: v.pkind, defUse: v.defUse, dupParm: v.dup, items: items}
				k(&sitem{k: iChild, child: c, later: v.later}, u+1)
			})
		}
	}
}

func c03Skeletons(quick bool, visit func(mod *sscope, size int)) {
	names := []string{"x", "y", "z"}
	subsets := [][]string{}
	for m := 0; m < 8; m++ {
		var ss []string
		for i, n := range names {
			if m&(1<<i) != 0 {
				ss = append(ss, n)
			}
		}
		subsets = append(subsets, ss)
	}
	orders := [][]string{{"x", "y", "z"}, {"z", "y", "x"}, {"y", "z", "x"}}
	if quick {
		orders = orders[:2]
	}
	binds := func(ns []string, rev bool) []*sitem {
		var out []*sitem
		for i := range ns {
			n := ns[i]
			if rev {
				n = ns[len(ns)-1-i]
			}
			out = append(out, &sitem{k: iBind, name: n})
		}
		return out
	}
	uses := func(ns []string) []*sitem {
		var out []*sitem
		for _, n := range ns {
			out = append(out, &sitem{k: iUse, name: n})
		}
		return out
	}
	for _, A := range subsets {
		for _, B := range subsets {
			for _, mk := range []sckind{scDef, scClass} {
				for oi, ord := range orders {
					for _, nl := range []string{"", "x", "z", "G:x", "G:z"} {
						if nl != "" && quick && oi > 0 {
							continue
						}
						midGlobal := ""
						if strings.HasPrefix(nl, "G:") {
							// the middle scope declares the name global: inner scopes must not see outer's binding
							midGlobal, nl = nl[2:], ""
						}
						inner := &sscope{kind: scDef}
						if nl != "" {
							inner.items = append(inner.items, &sitem{k: iNonlocal, name: nl}, &sitem{k: iBind, name: nl})
						}
						inner.items = append(inner.items, uses(ord)...)
						mid := &sscope{kind: mk}
						if midGlobal != "" {
							mid.items = append(mid.items, &sitem{k: iGlobal, name: midGlobal})
						}
						mid.items = append(mid.items, binds(B, oi == 1)...)
						mid.items = append(mid.items, &sitem{k: iChild, child: inner})
						mid.items = append(mid.items, uses(ord[:1])...)
						outer := &sscope{kind: scDef}
						outer.items = append(outer.items, binds(A, oi == 1)...)
						outer.items = append(outer.items, &sitem{k: iChild, child: mid, later: oi == 0})
						outer.items = append(outer.items, binds(A[:len(A)/2], false)...)
						outer.items = append(outer.items, uses(ord)...)
						mod := &sscope{kind: scModule, items: []*sitem{{k: iBind, name: "y"}, {k: iChild, child: outer}}}
						visit(mod, 6+len(A)+len(B))
					}
				}
			}
		}
	}
}

// c03Siblings: an enclosing scope binds x and contains TWO sibling nested scopes; what the
// first sibling declares (global / nonlocal / its own binding) must not change how the
// second resolves x, in either order.
func c03Siblings(quick bool, visit func(mod *sscope, size int)) {
	type body []*sitem
	mk := func(ks ...ikind) body {
		var b body
		for _, k := range ks {
			b = append(b, &sitem{k: k, name: "x"})
		}
		return b
	}
	bodies := []body{mk(iGlobal, iBind), mk(iGlobal, iUse), mk(iGlobal), mk(iNonlocal, iBind), mk(iNonlocal, iUse), mk(iUse), mk(iBind, iUse), mk(iDel), mk(iGlobal, iDel)}
	kinds := []sckind{scDef, scClass}
	outers := []sckind{scDef, scClass, scModule}
	for _, ok := range outers {
		for _, k1 := range kinds {
			for _, k2 := range kinds {
				for _, b1 := range bodies {
					for _, b2 := range bodies {
						for _, later := range []bool{false, true} {
							if later && (k1 != scDef || quick && k2 != scDef) {
								continue
							}
							clone := func(b body) []*sitem {
								var o []*sitem
								for _, it := range b {
									c := *it
									o = append(o, &c)
								}
								return o
							}
							c1 := &sscope{kind: k1, items: clone(b1)}
							c2 := &sscope{kind: k2, items: clone(b2)}
							var items []*sitem
							items = append(items, &sitem{k: iBind, name: "x"})
							items = append(items, &sitem{k: iChild, child: c1, later: later})
							items = append(items, &sitem{k: iChild, child: c2})
							items = append(items, &sitem{k: iUse, name: "x"})
							var mod *sscope
							if ok == scModule {
								mod = &sscope{kind: scModule, items: items}
							} else {
								outer := &sscope{kind: ok, items: items}
								mod = &sscope{kind: scModule, items: []*sitem{{k: iBind, name: "x"}, {k: iChild, child: outer}, {k: iUse, name: "x"}}}
							}
							visit(mod, 6+len(b1)+len(b2))
						}
					}
				}
			}
		}
	}
}

func cloneScope(s *sscope, parent *sscope) *sscope {
	m := map[*sscope]*sscope{}
	c := cloneScope1(s, parent, m)
	var fix func(d *sscope)
	fix = func(d *sscope) {
		for _, it := range d.items {
			if it.ref != nil {
				it.ref = m[it.ref]
			}
			if it.child != nil {
				fix(it.child)
			}
		}
	}
	fix(c)
	return c
}

func cloneScope1(s *sscope, parent *sscope, m map[*sscope]*sscope) *sscope {
	c := *s
	m[s] = &c
	c.parent = parent
	c.items = nil
	for _, it := range s.items {
		ci := *it
		if it.child != nil {
			ci.child = cloneScope1(it.child, &c, m)
		}
		c.items = append(c.items, &ci)
	}
	return &c
}

// c03ParamForms: a function whose parameter x is declared in each of the forms of c03Params
// (positional, keyword-only after a bare * or after *args, *x, **x with other parameters
// before it) and captured by each kind of nested scope, read-only or rebound through nonlocal.
func c03ParamForms(visit func(mod *sscope, size int)) {
	use := func() *sitem { return &sitem{k: iUse, name: "x"} }
	for pk := range c03Params {
		for _, later := range []bool{false, true} {
			inners := []*sscope{
				{kind: scDef, items: []*sitem{use()}},
				{kind: scDef, items: []*sitem{{k: iNonlocal, name: "x"}, use(), {k: iBind, name: "x"}, use()}},
				{kind: scDef, items: []*sitem{{k: iChild, child: &sscope{kind: scLambda, items: []*sitem{use()}}}}},
				{kind: scLambda, items: []*sitem{use()}},
				{kind: scClass, items: []*sitem{use(), {k: iChild, child: &sscope{kind: scDef, items: []*sitem{use()}}}}},
				{kind: scListComp, items: []*sitem{use()}},
				{kind: scGenExp, items: []*sitem{use()}},
				nil, // not captured at all
			}
			for _, inner := range inners {
				outer := &sscope{kind: scDef, param: "x", pkind: pk}
				outer.items = append(outer.items, use())
				if inner != nil {
					outer.items = append(outer.items, &sitem{k: iChild, child: inner})
				}
				outer.items = append(outer.items, use(), &sitem{k: iLocals})
				mod := &sscope{kind: scModule, items: []*sitem{{k: iBind, name: "x"}, {k: iChild, child: outer, later: later}, use()}}
				visit(mod, 8)
			}
		}
	}
}

// c03ClassBinds: a class body nested in a function binds x in each possible way (assignment,
// import, del, global declaration, nothing) while the enclosing function binds x too, and a
// method reads x: methods never see the class-level binding, they see the function's.
func init() {
	// `import x.q.m` / `import y.q.m` must succeed wherever a generated program runs
	for _, n := range []string{"x.q.m", "y.q.m"} {
		py.RegisterModule(&py.ModuleImpl{Info: py.ModuleInfo{Name: n}, Globals: py.StringDict{}})
	}
}

func c03ClassBinds(visit func(mod *sscope, size int)) {
	use := func() *sitem { return &sitem{k: iUse, name: "x"} }
	binds := [][]*sitem{
		{{k: iBind, name: "x"}}, {{k: iImport, name: "x"}}, {{k: iImport, name: "x"}, {k: iBind, name: "x"}}, {{k: iBind, name: "x"}, {k: iDel, name: "x"}},
		{{k: iGlobal, name: "x"}, {k: iImport, name: "x"}}, {{k: iGlobal, name: "x"}, {k: iBind, name: "x"}}, {{k: iNonlocal, name: "x"}, {k: iImport, name: "x"}}, {},
		{{k: iImportDot, name: "x"}}, {{k: iGlobal, name: "x"}, {k: iImportDot, name: "x"}},
	}
	for _, outerBind := range [][]*sitem{{{k: iBind, name: "x"}}, {{k: iImport, name: "x"}}, {}, {{k: iImportDot, name: "x"}}} {
		for _, cb := range binds {
			for _, nested := range []sckind{scDef, scLambda, scClass} {
				for _, twoMethods := range []bool{false, true} {
					cls := &sscope{kind: scClass}
					for _, it := range cb {
						c := *it
						cls.items = append(cls.items, &c)
					}
					var inner *sscope
					switch nested {
					case scClass:
						inner = &sscope{kind: scClass, items: []*sitem{use(), {k: iChild, child: &sscope{kind: scDef, items: []*sitem{use()}}}}}
					default:
						inner = &sscope{kind: nested, items: []*sitem{use()}}
					}
					cls.items = append(cls.items, use(), &sitem{k: iChild, child: inner})
					if twoMethods {
						cls.items = append(cls.items, &sitem{k: iChild, child: &sscope{kind: scDef, items: []*sitem{{k: iUse, name: "y"}, use()}}})
					}
					cls.items = append(cls.items, use(), &sitem{k: iLocals})
					outer := &sscope{kind: scDef}
					for _, it := range outerBind {
						c := *it
						outer.items = append(outer.items, &c)
					}
					outer.items = append(outer.items, &sitem{k: iBind, name: "y"}, &sitem{k: iChild, child: cls}, use())
					mod := &sscope{kind: scModule, items: []*sitem{{k: iBind, name: "x"}, {k: iChild, child: outer}, use()}}
					visit(mod, 10)
				}
			}
		}
	}
}

// c03Snapshots: a scope nested in a function reads a variable x of that function, takes a
// locals() snapshot, has x rebound or deleted behind its back (by calling a sibling closure
// that declares x nonlocal) and reads x again: every sequence of at most 4 such steps, in a
// class body and in a function body. A snapshot must never become the binding.
func c03Snapshots(quick bool, visit func(mod *sscope, size int)) {
	type step struct {
		k    ikind
		what int // iRecall: 0 rebind, 1 delete
	}
	alphabet := []step{{iUse, 0}, {iLocals, 0}, {iRecall, 0}, {iRecall, 1}, {iBind, 0}, {iDel, 0}, {iLocalsSet, 0}}
	maxLen := 4
	if quick {
		maxLen = 3
	}
	var seqs [][]step
	var gen func(cur []step)
	gen = func(cur []step) {
		if len(cur) > 0 {
			seqs = append(seqs, append([]step{}, cur...))
		}
		if len(cur) == maxLen {
			return
		}
		for _, st := range alphabet {
			gen(append(cur, st))
		}
	}
	gen(nil)
	for _, mk := range []sckind{scClass, scDef} {
		for _, sq := range seqs {
			rebind := &sscope{kind: scDef, items: []*sitem{{k: iNonlocal, name: "x"}, {k: iBind, name: "x"}}}
			unbind := &sscope{kind: scDef, items: []*sitem{{k: iNonlocal, name: "x"}, {k: iDel, name: "x"}}}
			// the scope reads x first, so that x is one of its free variables whatever follows
			mid := &sscope{kind: mk, items: []*sitem{{k: iUse, name: "x"}}}
			for _, st := range sq {
				it := &sitem{k: st.k, name: "x"}
				if st.k == iRecall {
					it.ref = rebind
					if st.what == 1 {
						it.ref = unbind
					}
				}
				mid.items = append(mid.items, it)
			}
			outer := &sscope{kind: scDef, items: []*sitem{{k: iBind, name: "x"}, {k: iChild, child: rebind, nocall: true}, {k: iChild, child: unbind, nocall: true},
				{k: iChild, child: mid}, {k: iUse, name: "x"}, {k: iLocals}}}
			mod := &sscope{kind: scModule, items: []*sitem{{k: iBind, name: "x"}, {k: iChild, child: outer}, {k: iUse, name: "x"}}}
			visit(mod, 9+len(sq))
		}
	}
}

// c03Builtins: a name that only the builtins bind is read, then bound / deleted as a module
// global behind the reader's back (by sibling functions that declare it global), and read
// again - in one activation of a function, in a class body, and in a nested function: a global
// lookup finds the module's binding whenever there is one and the builtin otherwise, every time.
func c03Builtins(quick bool, visit func(mod *sscope, size int)) {
	const N = "abs"
	type step struct {
		k    ikind
		what int
	}
	alphabet := []step{{iUse, 0}, {iRecall, 0}, {iRecall, 1}}
	maxLen := 5
	if quick {
		maxLen = 4
	}
	var seqs [][]step
	var gen func(cur []step)
	gen = func(cur []step) {
		if len(cur) > 1 {
			seqs = append(seqs, append([]step{}, cur...))
		}
		if len(cur) == maxLen {
			return
		}
		for _, st := range alphabet {
			gen(append(cur, st))
		}
	}
	gen(nil)
	for _, mk := range []sckind{scDef, scClass} {
		for _, nested := range []bool{false, true} {
			for _, sq := range seqs {
				rebind := &sscope{kind: scDef, items: []*sitem{{k: iGlobal, name: N}, {k: iBind, name: N}}}
				unbind := &sscope{kind: scDef, items: []*sitem{{k: iGlobal, name: N}, {k: iDel, name: N}}}
				mid := &sscope{kind: mk}
				for _, st := range sq {
					it := &sitem{k: st.k, name: N}
					if st.k == iRecall {
						it.ref = rebind
						if st.what == 1 {
							it.ref = unbind
						}
					}
					mid.items = append(mid.items, it)
				}
				if nested {
					// the reads happen one function further in, in a single activation of it
					mid = &sscope{kind: scDef, items: []*sitem{{k: iChild, child: mid}}}
				}
				outer := &sscope{kind: scDef, items: []*sitem{{k: iChild, child: rebind, nocall: true}, {k: iChild, child: unbind, nocall: true},
					{k: iChild, child: mid}, {k: iUse, name: N}}}
				mod := &sscope{kind: scModule, items: []*sitem{{k: iChild, child: outer}, {k: iUse, name: N}}}
				visit(mod, 8+len(sq))
			}
		}
	}
}

func countScopes(s *sscope) int {
	n := 1
	for _, it := range s.items {
		if it.child != nil {
			n += countScopes(it.child)
		}
	}
	return n
}

func c03Run(rc *core.RunCtx) {
	c := &c01{rc: rc, ev: newEvaluator()}
	c.base = py.StringDict{"vh": c.ev.vh}
	type plan struct {
		budget, depth int
		names         []string
	}
	var plans []plan
	if rc.Quick() {
		plans = []plan{{4, 2, []string{"x"}}, {4, 3, []string{"x"}}, {3, 2, []string{"x", "y"}}}
	} else {
		plans = []plan{{5, 2, []string{"x"}}, {6, 3, []string{"x"}}, {4, 3, []string{"x", "y"}}}
	}
	// deep closure skeletons: outer function binds A, a middle def/class binds B, an inner
	// function uses (and optionally rebinds through nonlocal) all three names
	rc.Part = "skeleton"
	c03Skeletons(rc.Quick(), func(mod *sscope, size int) {
		if rc.Expired() || rc.Done() {
			return
		}
		if !rc.Take() {
			return
		}
		c03One(c, cloneScope(mod, nil), size, 99)
	})
	rc.Part = "siblings"
	c03Siblings(rc.Quick(), func(mod *sscope, size int) {
		if rc.Expired() || rc.Done() {
			return
		}
		if !rc.Take() {
			return
		}
		c03One(c, cloneScope(mod, nil), size, 98)
	})
	rc.Part = "params"
	c03ParamForms(func(mod *sscope, size int) {
		if rc.Expired() || rc.Done() {
			return
		}
		if !rc.Take() {
			return
		}
		c03One(c, cloneScope(mod, nil), size, 96)
	})
	rc.Part = "classbinds"
	c03ClassBinds(func(mod *sscope, size int) {
		if rc.Expired() || rc.Done() {
			return
		}
		if !rc.Take() {
			return
		}
		c03One(c, cloneScope(mod, nil), size, 95)
	})
	rc.Part = "snapshots"
	c03Snapshots(rc.Quick(), func(mod *sscope, size int) {
		if rc.Expired() || rc.Done() {
			return
		}
		if !rc.Take() {
			return
		}
		c03One(c, cloneScope(mod, nil), size, 97)
	})
	rc.Part = "builtins"
	c03Builtins(rc.Quick(), func(mod *sscope, size int) {
		if rc.Expired() || rc.Done() {
			return
		}
		if !rc.Take() {
			return
		}
		c03One(c, cloneScope(mod, nil), size, 98)
	})
	seen := 0
	for pi, pl := range plans {
		rc.Part = fmt.Sprintf("plan%d", pi)
		g := &c03gen{rc: rc, names: pl.names, maxDepth: pl.depth}
		g.items(scModule, 0, pl.budget, func(items []*sitem, used int) {
			if rc.Expired() || rc.Done() || used == 0 {
				return
			}
			if !rc.Take() {
				return
			}
			seen++
			mod := cloneScope(&sscope{kind: scModule, items: items}, nil)
			c03One(c, mod, used, pi)
		})
	}
}

func c03One(c *c01, mod *sscope, used, plan int) {
	rc := c.rc
	r := &c03r{}
	r.body(0, mod)
	src := r.b.String()
	fields := core.Fields{"plan": itoa(plan), "size": itoa(used), "src": src}
	rc.Guard(fields, func() string { return src }, func() {
		reject := c03Static(mod)
		var expLog []string
		usedCell := false
		if reject == "" {
			in := &c03interp{globals: map[string]*cellv{}}
			in.run(&c03frame{scope: mod, info: c03Collect(mod), vars: map[string]*cellv{}, in: in})
			expLog = in.log
			usedCell = in.usedCell
		}
		exp := "log=[" + strings.Join(expLog, ",") + "]"
		if reject != "" {
			exp = "SyntaxError (" + reject + ")"
		}
		observeOnce := func() (string, string) {
			_, _, log, err := c.run(src, py.ExecMode)
			if err != nil {
				t, bases, _, _ := harness.ExcInfo(err)
				for _, b := range bases {
					if b == "SyntaxError" {
						return "SyntaxError", "rejected"
					}
				}
				return "log=[" + strings.Join(log, ",") + "] exc=" + t, "raised:" + t
			}
			return "log=[" + strings.Join(log, ",") + "]", "ok"
		}
		got, cls := observeOnce()
		outcome := "runs"
		if reject != "" {
			outcome = "rejected:" + reject
		}
		nt := ""
		if len(expLog) > 0 || reject != "" {
			nt = src
		}
		rc.Eval(outcome, nt)
		if rc.WantSample() && rc.Index()%7919 == 0 {
			rc.Sample(map[string]interface{}{"program": src, "expected": exp})
		}
		if reject != "" {
			if cls != "rejected" {
				rc.Deviate(core.Deviation{Fields: fields, Input: src, Expected: exp, Observed: got, Sig: "accepted-forbidden-declaration:" + strings.ReplaceAll(reject, " ", "-")})
			}
			return
		}
		if got != exp {
			sig := "wrong-binding"
			if cls == "rejected" {
				sig = "rejected-legal-program"
			} else if strings.HasPrefix(cls, "raised:") {
				sig = "unexpected-exception:" + cls[7:]
			}
			rc.Deviate(core.Deviation{Fields: fields, Input: src, Expected: exp, Observed: got, Sig: sig})
			return
		}
		// the outcome must not depend on the order in which names happen to be analysed:
		// every iteration order of every controlled map loop within deviation bound 1
		if verifrt.Instrumented && countScopes(mod) >= 2 && (usedCell || rc.Index()%16 == 0) {
			bound := 1
			if plan == 99 && !rc.Quick() {
				bound = 2
			}
			e := explore.New(bound)
			e.MaxExec = 150
			if plan == 99 {
				e.MaxExec = 3000
			}
			e.Stop = rc.Expired
			verifrt.Controlled = true
			var bad string
			e.Explore(func(x *explore.Exec) string {
				g2, _ := observeOnce()
				if x.Diverged {
					return ""
				}
				if g2 != exp {
					bad = g2
					return "order-dependent"
				}
				return ""
			})
			verifrt.Controlled = false
			rc.Count("order_executions", e.Executions)
			rc.Count("transitions", e.Points+1)
			if bad != "" {
				rc.Deviate(core.Deviation{Fields: fields, Input: src, Expected: exp + " under every analysis order", Observed: bad, Sig: "order-dependent"})
			}
		}
	})
}

func init() {
	core.Register(&core.Check{
		ID:    "C03",
		Level: "model_checking",
		Mode:  "ov",
		Rule: "every scope tree with at most 4-5 (thorough 5-6) items and nesting depth 2-3 over scope kinds {module, def (with parameter, default value, duplicate parameter, called now / at the end of the enclosing scope), lambda, class, list comprehension, generator expression} and items {bind, use, global, nonlocal, del} of names {x} (and {x, y} at a smaller budget); every binding has a unique value and every use logs the value it sees. " +
			"Families beyond the generic enumeration: parameter declaration forms x capture shapes; class bodies nested in a function that bind the name by assignment, import, del, global or nonlocal declaration while methods, lambdas and nested classes read it; snapshots (locals() against rebinding behind the scope's back); siblings; deep closure skeletons. Oracle: an independent scope resolver + interpreter (declared sets per block, nearest enclosing function binding skipping class blocks, class/module fallback to globals, one cell per variable, late rebinding, defaults at definition time) and the compile-time rejections. Each accepted program with >= 2 scopes is additionally run under every iteration order (deviation bound 1) of every range-over-map in symtable/compile/vm. Non-trivial: at least one use is logged or the program must be rejected.",
		Run:         c03Run,
		Assumptions: []string{"NameError family: UnboundLocalError and NameError are not distinguished", "name mangling and __class__ are not in the alphabet"},
		Explanation: "exhaustive enumeration of bounded scope trees against a reference resolver/interpreter, crossed with exhaustive exploration of internal analysis orders",
	})
}

package props

import (
	"math/big"
	"strconv"
	"strings"

	"github.com/go-python/gpython/py"
	"verif/internal/harness"
)

// ---------------------------------------------------------------------------
// C13 reference model: Python's sequence model written naively on Go slices.
// Nothing here calls into gpython except obj() (building the operand) and the
// canonicaliser of observed results.
// ---------------------------------------------------------------------------

// c13ix is one member of the index alphabet: None or an integer of any size.
type c13ix struct {
	none bool
	v    *big.Int
	name string // short label used in Fields
	src  string // Python spelling
}

func (x c13ix) obj() py.Object {
	if x.none {
		return py.None
	}
	return pyInt(x.v)
}

// objBig: the same integer forced into the arbitrary-precision representation (a *py.BigInt
// holding a value that fits a machine word), which every index consumer must accept too.
func (x c13ix) objBig() py.Object {
	if x.none {
		return py.None
	}
	return pyBig(x.v)
}

func c13mkix(v *big.Int, name string) c13ix {
	return c13ix{v: v, name: name, src: v.String()}
}

// c13Alphabet: None, 0, 1, -1, ... 9, -9 (simplest first), then the far-out values.
func c13Alphabet() []c13ix {
	out := []c13ix{{none: true, name: "None", src: "None"}}
	out = append(out, c13mkix(big.NewInt(0), "0"))
	for i := int64(1); i <= 9; i++ {
		out = append(out, c13mkix(big.NewInt(i), strconv.FormatInt(i, 10)))
		out = append(out, c13mkix(big.NewInt(-i), strconv.FormatInt(-i, 10)))
	}
	p63 := new(big.Int).Lsh(big.NewInt(1), 63)
	p64 := new(big.Int).Lsh(big.NewInt(1), 64)
	m := new(big.Int).Sub(p63, big.NewInt(1))
	out = append(out,
		c13mkix(m, "2^63-1"), c13mkix(new(big.Int).Neg(m), "-2^63+1"),
		c13mkix(p63, "2^63"), c13mkix(new(big.Int).Neg(p63), "-2^63"),
		c13mkix(p64, "2^64"), c13mkix(new(big.Int).Neg(p64), "-2^64"))
	return out
}

// c13seq is a model sequence: a kind and its elements (code points for str, byte
// values for bytes, integers for list/tuple/range).
type c13seq struct {
	kind string // str | list | tuple | bytes | range
	tag  string // variant label (str, ustr, ustr2, list, tuple, bytes, r1, r-2, r2m ...)
	e    []int64
	// range parameters (kind == "range")
	rstart, rstop, rstep int64
}

func (s c13seq) n() int { return len(s.e) }

func c13elems(e []int64) string {
	var b strings.Builder
	b.WriteByte('[')
	for i, x := range e {
		if i > 0 {
			b.WriteByte(',')
		}
		b.WriteString(strconv.FormatInt(x, 10))
	}
	b.WriteByte(']')
	return b.String()
}

// canon of a model sequence; the same text c13Canon produces for a correct object.
func (s c13seq) canon() string { return c13canonKE(s.kind, s.e) }

func c13canonKE(kind string, e []int64) string {
	if kind == "range" {
		// observed ranges are read three ways: by iteration, by len(), by indexing
		return "range:" + c13elems(e) + "|len=" + strconv.Itoa(len(e)) + "|items=" + c13elems(e)
	}
	return kind + ":" + c13elems(e)
}

// obj builds the real operand.
func (s c13seq) obj() py.Object {
	switch s.kind {
	case "str":
		r := make([]rune, len(s.e))
		for i, x := range s.e {
			r[i] = rune(x)
		}
		return py.String(string(r))
	case "bytes":
		b := make([]byte, len(s.e))
		for i, x := range s.e {
			b[i] = byte(x)
		}
		return py.Bytes(b)
	case "list":
		if s.tag == "listcap" {
			l := py.NewListWithCapacity(len(s.e) + 5)
			for _, x := range s.e {
				l.Append(py.Int(x))
			}
			return l
		}
		l := py.NewListSized(len(s.e))
		for i, x := range s.e {
			l.Items[i] = py.Int(x)
		}
		return l
	case "tuple":
		t := make(py.Tuple, len(s.e))
		for i, x := range s.e {
			t[i] = py.Int(x)
		}
		return t
	case "range":
		o, err := py.RangeNew(py.RangeType, py.Tuple{py.Int(s.rstart), py.Int(s.rstop), py.Int(s.rstep)}, nil)
		if err != nil {
			panic("c13: range construction failed: " + err.Error())
		}
		return o
	}
	panic("c13: bad kind " + s.kind)
}

// lit is the Python source spelling of the sequence.
func (s c13seq) lit() string {
	switch s.kind {
	case "str":
		r := make([]rune, len(s.e))
		for i, x := range s.e {
			r[i] = rune(x)
		}
		return "'" + string(r) + "'"
	case "bytes":
		b := make([]byte, len(s.e))
		for i, x := range s.e {
			b[i] = byte(x)
		}
		return "b'" + string(b) + "'"
	case "list", "tuple":
		xs := make([]string, len(s.e))
		for i, x := range s.e {
			xs[i] = strconv.FormatInt(x, 10)
		}
		if s.tag == "listcap" {
			return c13capLit(xs)
		}
		if s.kind == "list" {
			return "[" + strings.Join(xs, ", ") + "]"
		}
		if len(xs) == 1 {
			return "(" + xs[0] + ",)"
		}
		return "(" + strings.Join(xs, ", ") + ")"
	case "range":
		return "range(" + strconv.FormatInt(s.rstart, 10) + ", " + strconv.FormatInt(s.rstop, 10) + ", " + strconv.FormatInt(s.rstep, 10) + ")"
	}
	panic("c13: bad kind " + s.kind)
}

var (
	c13ascii = []int64{'a', 'b', 'c', 'd', 'e', 'f', 'g'}
	c13u1    = []int64{'a', 0xe9, 0x20ac, 0x1f600, 'b', 0xf1, 'x'}     // 1,2,3,4,1,2,1 byte runes
	c13u2    = []int64{0x1f600, 0x20ac, 0xe9, 'a', 0xf1, 'z', 0x1d11e} // starts with a 4 byte rune
)

// c13mk builds the variant `tag` with n elements (all elements distinct).
// c13capLit: an expression building the list by appending (spare capacity in the backing array)
func c13capLit(xs []string) string {
	if len(xs) == 0 {
		return "[x for x in ()]"
	}
	return "[x for x in (" + strings.Join(xs, ", ") + ",)]"
}

func c13mk(tag string, n int) c13seq {
	switch tag {
	case "str":
		return c13seq{kind: "str", tag: tag, e: append([]int64{}, c13ascii[:n]...)}
	case "ustr":
		return c13seq{kind: "str", tag: tag, e: append([]int64{}, c13u1[:n]...)}
	case "ustr2":
		return c13seq{kind: "str", tag: tag, e: append([]int64{}, c13u2[:n]...)}
	case "bytes":
		return c13seq{kind: "bytes", tag: tag, e: append([]int64{}, c13ascii[:n]...)}
	case "list", "tuple":
		e := make([]int64, n)
		for i := range e {
			e[i] = 10 + int64(i)
		}
		return c13seq{kind: tag, tag: tag, e: e}
	case "listcap":
		// a list whose backing array has spare capacity (built by appending / a comprehension),
		// as opposed to one built from a display whose capacity equals its length
		e := make([]int64, n)
		for i := range e {
			e[i] = 10 + int64(i)
		}
		return c13seq{kind: "list", tag: tag, e: e}
	}
	// range variants: r<step> (stop exactly start+n*step) and r<step>m (smallest/“ragged” stop)
	if strings.HasPrefix(tag, "r") {
		t := strings.TrimPrefix(tag, "r")
		ragged := strings.HasSuffix(t, "m")
		t = strings.TrimSuffix(t, "m")
		step, err := strconv.ParseInt(t, 10, 64)
		if err != nil || step == 0 {
			panic("c13: bad range tag " + tag)
		}
		return c13mkRange(tag, 5, int64(n), step, ragged)
	}
	panic("c13: bad tag " + tag)
}

func c13mkRange(tag string, start, n, step int64, ragged bool) c13seq {
	e := make([]int64, n)
	for i := range e {
		e[i] = start + int64(i)*step
	}
	stop := start + n*step
	if ragged && n > 0 {
		sg := int64(1)
		if step < 0 {
			sg = -1
		}
		stop = start + (n-1)*step + sg
	}
	return c13seq{kind: "range", tag: tag, e: e, rstart: start, rstop: stop, rstep: step}
}

// c13Slice is Python's slice.indices(n) written from its definition (Objects/sliceobject.c,
// documented under slice.indices), followed by an explicit selection loop. All arithmetic is
// arbitrary precision, so "far out of range" needs no special treatment.
//
// pos: the selected positions in order; start: the normalised start; stepOne: step == 1
// (the "simple slice" case of assignment/deletion); ok=false: step == 0 (ValueError).
func c13Slice(n int, a, b, c c13ix) (pos []int, start int, stepOne bool, ok bool) {
	N := big.NewInt(int64(n))
	step := big.NewInt(1)
	if !c.none {
		step = c.v
	}
	if step.Sign() == 0 {
		return nil, 0, false, false
	}
	var lower, upper *big.Int
	if step.Sign() > 0 {
		lower, upper = big.NewInt(0), N
	} else {
		lower, upper = big.NewInt(-1), new(big.Int).Sub(N, big.NewInt(1))
	}
	norm := func(x c13ix, dflt *big.Int) *big.Int {
		if x.none {
			return dflt
		}
		v := new(big.Int).Set(x.v)
		if v.Sign() < 0 {
			v.Add(v, N)
			if v.Cmp(lower) < 0 {
				v.Set(lower)
			}
		} else if v.Cmp(upper) > 0 {
			v.Set(upper)
		}
		return v
	}
	var st, sp *big.Int
	if step.Sign() > 0 {
		st, sp = norm(a, lower), norm(b, upper)
	} else {
		st, sp = norm(a, upper), norm(b, lower)
	}
	for i := new(big.Int).Set(st); (step.Sign() > 0 && i.Cmp(sp) < 0) || (step.Sign() < 0 && i.Cmp(sp) > 0); i = new(big.Int).Add(i, step) {
		pos = append(pos, int(i.Int64()))
	}
	return pos, int(st.Int64()), step.Cmp(big.NewInt(1)) == 0, true
}

// c13GetSlice: s[a:b:c]
func c13GetSlice(e []int64, a, b, c c13ix) ([]int64, string) {
	pos, _, _, ok := c13Slice(len(e), a, b, c)
	if !ok {
		return nil, "ValueError"
	}
	out := make([]int64, 0, len(pos))
	for _, p := range pos {
		out = append(out, e[p])
	}
	return out, ""
}

// c13SetSlice: l[a:b:c] = r on a copy of e.
func c13SetSlice(e []int64, a, b, c c13ix, r []int64) ([]int64, string) {
	pos, start, stepOne, ok := c13Slice(len(e), a, b, c)
	if !ok {
		return nil, "ValueError"
	}
	if stepOne {
		// simple slice: the selected run (possibly empty, then "before start") is replaced
		out := append([]int64{}, e[:start]...)
		out = append(out, r...)
		out = append(out, e[start+len(pos):]...)
		return out, ""
	}
	if len(r) != len(pos) {
		return nil, "ValueError"
	}
	out := append([]int64{}, e...)
	for k, p := range pos {
		out[p] = r[k]
	}
	return out, ""
}

// c13DelSlice: del l[a:b:c] on a copy of e.
func c13DelSlice(e []int64, a, b, c c13ix) ([]int64, string) {
	pos, _, _, ok := c13Slice(len(e), a, b, c)
	if !ok {
		return nil, "ValueError"
	}
	gone := map[int]bool{}
	for _, p := range pos {
		gone[p] = true
	}
	out := []int64{}
	for i, x := range e {
		if !gone[i] {
			out = append(out, x)
		}
	}
	return out, ""
}

// c13Item: position of s[i] for an integer i, or "IndexError".
func c13Item(n int, i *big.Int) (int, string) {
	v := new(big.Int).Set(i)
	if v.Sign() < 0 {
		v.Add(v, big.NewInt(int64(n)))
	}
	if v.Sign() < 0 || v.Cmp(big.NewInt(int64(n))) >= 0 {
		return 0, "IndexError"
	}
	return int(v.Int64()), ""
}

func c13cmp(a, b []int64) int {
	for i := 0; i < len(a) && i < len(b); i++ {
		if a[i] != b[i] {
			if a[i] < b[i] {
				return -1
			}
			return 1
		}
	}
	switch {
	case len(a) < len(b):
		return -1
	case len(a) > len(b):
		return 1
	}
	return 0
}

func c13subseq(hay, needle []int64) bool {
	for i := 0; i+len(needle) <= len(hay); i++ {
		ok := true
		for j := range needle {
			if hay[i+j] != needle[j] {
				ok = false
				break
			}
		}
		if ok {
			return true
		}
	}
	return false
}

// ---------------------------------------------------------------------------
// observation: a canonical text for any result object, independent of gpython's repr
// ---------------------------------------------------------------------------

func c13elem(o py.Object) string {
	switch v := o.(type) {
	case nil:
		return "<nil>"
	case py.Int:
		return strconv.FormatInt(int64(v), 10)
	case *py.BigInt:
		return (*big.Int)(v).String()
	case py.Bool:
		if v {
			return "True"
		}
		return "False"
	case py.String:
		xs := []string{}
		for _, r := range string(v) {
			xs = append(xs, strconv.Itoa(int(r)))
		}
		return "s(" + strings.Join(xs, ".") + ")"
	}
	return "<" + o.Type().Name + ":" + short(harness.Canon(o), 30) + ">"
}

func c13objs(xs []py.Object) string {
	ss := make([]string, len(xs))
	for i, x := range xs {
		ss[i] = c13elem(x)
	}
	return "[" + strings.Join(ss, ",") + "]"
}

const c13cap = 40 // observed sequences are read up to this many elements

func c13Canon(o py.Object) string {
	switch v := o.(type) {
	case nil:
		return "<nil>"
	case py.NoneType:
		return "None"
	case py.Int, *py.BigInt:
		return "int:" + c13elem(o)
	case py.Bool:
		return "bool:" + c13elem(o)
	case py.String:
		xs := []string{}
		for _, r := range string(v) {
			xs = append(xs, strconv.Itoa(int(r)))
		}
		return "str:[" + strings.Join(xs, ",") + "]"
	case py.Bytes:
		xs := []string{}
		for _, b := range []byte(v) {
			xs = append(xs, strconv.Itoa(int(b)))
		}
		return "bytes:[" + strings.Join(xs, ",") + "]"
	case *py.List:
		if len(v.Items) > c13cap {
			return "list:" + c13objs(v.Items[:c13cap]) + "…" + strconv.Itoa(len(v.Items))
		}
		return "list:" + c13objs(v.Items)
	case py.Tuple:
		if len(v) > c13cap {
			return "tuple:" + c13objs(v[:c13cap]) + "…" + strconv.Itoa(len(v))
		}
		return "tuple:" + c13objs(v)
	case *py.Range:
		return c13CanonRange(v)
	}
	if o == py.NotImplemented {
		return "NotImplemented"
	}
	return "<" + o.Type().Name + ":" + short(harness.Canon(o), 40) + ">"
}

// c13CanonRange reads a range object three independent ways.
func c13CanonRange(r *py.Range) string {
	var b strings.Builder
	b.WriteString("range:")
	b.WriteString(c13iterate(r))
	b.WriteString("|len=")
	n := int64(-1)
	if l, err := py.Len(r); err != nil {
		b.WriteString("!" + excName(err))
	} else {
		b.WriteString(c13elem(l))
		if li, ok := l.(py.Int); ok {
			n = int64(li)
		}
	}
	b.WriteString("|items=")
	if n < 0 {
		b.WriteString("?")
	} else {
		xs := []string{}
		for i := int64(0); i < n && i < c13cap; i++ {
			x, err := py.GetItem(r, py.Int(i))
			if err != nil {
				xs = append(xs, "!"+excName(err))
				break
			}
			xs = append(xs, c13elem(x))
		}
		b.WriteString("[" + strings.Join(xs, ",") + "]")
		if n > c13cap {
			b.WriteString("…")
		}
	}
	return b.String()
}

func excName(err error) string {
	if t, ok := err.(*py.Type); ok && t != nil {
		return t.Name // a bare exception type used as an error value (py.StopIteration)
	}
	t, _, _, _ := harness.ExcInfo(err)
	return t
}

// c13iterate reads o through py.Iter/py.Next (bounded).
func c13iterate(o py.Object) string {
	it, err := py.Iter(o)
	if err != nil {
		return "!" + excName(err)
	}
	xs := []string{}
	for i := 0; ; i++ {
		x, err := py.Next(it)
		if err != nil {
			if t := excName(err); t != "StopIteration" {
				xs = append(xs, "!"+t)
			}
			break
		}
		if i >= c13cap {
			xs = append(xs, "…")
			break
		}
		xs = append(xs, c13elem(x))
	}
	return "[" + strings.Join(xs, ",") + "]"
}

// c13obs: typed observation with the C13 canonicaliser.
func c13obs(o py.Object, err error) Res {
	if err != nil {
		return Res{Exc: excName(err)}
	}
	return Res{Val: c13Canon(o)}
}

// c13iterCanon: expected text of iterating a model sequence (elements as the objects
// iteration yields: 1-character strings for str, ints otherwise).
func c13iterCanon(s c13seq) string {
	xs := make([]string, len(s.e))
	for i, x := range s.e {
		if s.kind == "str" {
			xs[i] = "s(" + strconv.FormatInt(x, 10) + ")"
		} else {
			xs[i] = strconv.FormatInt(x, 10)
		}
	}
	return "[" + strings.Join(xs, ",") + "]"
}

#!/bin/bash
# Run once after a fresh restore, offline: warm the Go build cache for every build mode.
set -eu
cd /verif
. scripts/env.sh
cp /repo/go.sum go.sum
mkdir -p bin evidence
go build -tags verif -o bin/vcheck ./cmd/vcheck
ovdir=$(mktemp -d "${TMPDIR:-/tmp}/verif-ov.XXXXXX")
go run ./cmd/instr -repo /repo -out "$ovdir"
go build -tags verif,verifov -overlay "$ovdir/overlay.json" -o bin/vcheck-ov ./cmd/vcheck
rm -rf "$ovdir"
go build -race -tags verif -o bin/vrace ./cmd/vrace
echo "setup ok"

#!/bin/bash
# Run once after a fresh restore, offline: warm the Go build cache for every build mode.
set -eu
cd /verif
. scripts/env.sh
cp /repo/go.sum go.sum
mkdir -p bin evidence
go build -tags verif -o bin/vcheck ./cmd/vcheck
echo "setup ok"

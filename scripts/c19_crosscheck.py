#!/usr/bin/env python3
"""Development aid for C19: cross-check the Go reference model against CPython.

  C19_DUMP=/tmp/c19.jsonl C19_EVERY=3 go test -tags verif -run TestC19Dump ./internal/props/
  python3 scripts/c19_crosscheck.py /tmp/c19.jsonl

Every dumped case (module sources + the model's prediction) is executed by CPython with
a `vh` shim and Python stand-ins for the two Go-registered modules; log, exception type,
module cache / namespaces and the re-import outcomes are compared with the prediction.
The ImportError family (ModuleNotFoundError) counts as ImportError.
"""
import importlib, json, os, shutil, sys, tempfile, types

sys.dont_write_bytecode = True
root = tempfile.mkdtemp(prefix="c19x-")
shim = os.path.join(root, "shim")
os.mkdir(shim)
open(os.path.join(shim, "vh.py"), "w").write('''
entries = []
def canon(x):
    if x is True: return "True"
    if x is False: return "False"
    if isinstance(x, int): return str(x)
    if isinstance(x, str): return "'" + x + "'"
    if isinstance(x, tuple): return "(" + ",".join(canon(y) for y in x) + ")"
    if isinstance(x, list): return "[" + ",".join(canon(y) for y in x) + "]"
    return "<?>"
def probe(*xs):
    return None
def log(*xs):
    entries.append(canon(xs[0]) if len(xs) == 1 else canon(xs))
''')
open(os.path.join(shim, "c19gm.py"), "w").write("a = 7\n_u = 8\ndef f(*a):\n    return None\n")
open(os.path.join(shim, "c19gs.py"), "w").write("import vh\nvh.log('c19gs')\na = 70\n_u = 71\nc = 72\n")
sys.path.insert(0, shim)
import vh

dirs = {}


def dir_for(name, src):
    key = (name, src)
    d = dirs.get(key)
    if d is None:
        d = os.path.join(root, "d%d" % len(dirs))
        os.mkdir(d)
        open(os.path.join(d, name + ".py"), "w").write(src)
        dirs[key] = d
        importlib.invalidate_caches()
    return d


def excname(e):
    return "ImportError" if isinstance(e, ImportError) else type(e).__name__


def visible(k):
    return not k.startswith("__") or k == "__all__"


def canon_val(v, main):
    if isinstance(v, types.ModuleType):
        nm = v.__name__
        if sys.modules.get(nm) is v:
            return "mod:" + nm
        return "mod:" + nm + ":stale"
    if isinstance(v, types.FunctionType):
        return "<method>"
    return vh.canon(v)


def ns_string(label, d, main):
    return label + "{" + " ".join(k + "=" + canon_val(d[k], main) for k in sorted(d) if visible(k)) + "}"


def snapshot(main, names):
    out = [ns_string("M", main, main)]
    for nm in names:
        if nm in sys.modules:
            out.append(ns_string(nm, sys.modules[nm].__dict__, main))
        else:
            out.append(nm + ":absent")
    return out


def run(case):
    names = case["snapnames"]
    for nm in names:
        sys.modules.pop(nm, None)
    vh.entries[:] = []
    path = [dir_for(k, v) for k, v in sorted(case["src"].items()) if k != "main"]
    sys.path[:] = [os.path.join(root, "nonexistent")] + path + [shim]
    main = {"vh": vh, "__name__": "__main__"}
    exc = ""
    try:
        exec(compile(case["src"]["main"], "<main>", "exec"), main)
    except Exception as e:
        exc = excname(e)
    snap1 = snapshot(main, names)
    epi = []
    for nm in case["epinames"]:
        try:
            exec("import " + nm, main)
            epi.append(nm + "=ok")
        except Exception as e:
            epi.append(nm + "=" + excname(e))
    exec("vh.log('alive')", main)
    snap2 = snapshot(main, names)
    return {"log": list(vh.entries), "exc": exc, "snap1": snap1, "epi": epi, "snap2": snap2}


def main():
    n = bad = 0
    for line in open(sys.argv[1]):
        case = json.loads(line)
        got = run(case)
        n += 1
        for k in ("log", "exc", "snap1", "epi", "snap2"):
            if got[k] != (case[k] or ([] if k != "exc" else "")):
                bad += 1
                if bad <= 15:
                    print("MISMATCH", case["enc"], k)
                    print("  model  :", case[k])
                    print("  cpython:", got[k])
                    for nm, src in sorted(case["src"].items()):
                        print("  --", nm)
                        print("    " + src.replace("\n", "\n    "))
                break
    print("cases", n, "mismatches", bad, "python", sys.version.split()[0])
    shutil.rmtree(root, ignore_errors=True)
    return 1 if bad else 0


if __name__ == "__main__":
    sys.exit(main())

#!/usr/bin/env python3
"""Runs the checks listed in seeded/CHECKS.txt against every kept seeded change (apply to /repo, run, revert)
and records the outcome in each seeded/<id>/meta.json. usage: seed_recheck.py [ids...]"""
import json, subprocess, sys, os
V='/verif'
primary='--primary' in sys.argv
want=set(a for a in sys.argv[1:] if not a.startswith('--'))
rows=[l.split() for l in open(f'{V}/seeded/CHECKS.txt') if l.strip() and not l.startswith('#')]
for r in rows:
    sid, checks = r[0], r[1:]
    if primary: checks=checks[:1]
    if want and sid not in want: continue
    d=f'{V}/seeded/{sid}'
    meta=json.load(open(f'{d}/meta.json'))
    caught=[]; missed=[]
    for c in checks:
        out=subprocess.run([f'{V}/scripts/mutest.sh', f'{d}/patch.diff', c, 'quick'],capture_output=True,text=True).stdout
        last=out.strip().splitlines()[-1] if out.strip() else ''
        (caught if last.startswith('CAUGHT') else missed).append(c)
    meta['property']=sid.split('-')[0]
    ver={}
    if os.path.exists(f'{d}/verification.txt'):
        for l in open(f'{d}/verification.txt'):
            if '=' in l and not l.startswith('check'):
                k,v=l.strip().split('=',1); ver[k]=v
    meta['integrator_verification']={**ver, 'how': 'scripts/seed_verify.sh: fresh worktree of /repo HEAD, git apply patch.diff, go test ./... (all packages), run_demo.sh with and without the change'}
    meta['checks_run_against_it']={'caught_by':caught,'missed_by':missed,'how':'scripts/mutest.sh: git -C /repo apply; scripts/check.sh <Cxx> --tier quick; git -C /repo checkout -- .'}
    json.dump(meta,open(f'{d}/meta.json','w'),indent=1)
    print(sid,'caught_by',caught,'missed_by',missed)

#!/bin/bash
# usage: scripts/seed_verify.sh <id> <n> [check ...]
# Verifies a seeded change produced by a fresh sub-agent in /tmp/seed/<id>/OUT/<n>:
#  (1) applies it in a fresh scratch worktree, runs the repository tests (must pass),
#  (2) runs its demonstration with the change (must fail) and without (must pass),
#  (3) stores it under /verif/seeded/<ID>-<n>/ and runs the given checks against it in /repo (apply, check, revert).
set -u
id=$1; n=$2; shift 2
ID=${id^^}
src=/tmp/seed/$id/OUT/$n
[ -f $src/patch.diff ] || src=/verif/seeded/$ID-$n
[ -f $src/patch.diff ] || { echo "no patch in $src"; exit 2; }
. /verif/scripts/env.sh
wt=/tmp/seedv/$id-$n
git -C /repo worktree remove --force $wt 2>/dev/null
mkdir -p /tmp/seedv
git -C /repo worktree add -q --detach $wt HEAD || exit 2
cleanup() { git -C /repo worktree remove --force $wt 2>/dev/null; }
trap cleanup EXIT
cd $wt
mkdir -p OUT && cp -r $src OUT/$n
res=/tmp/seedv/$id-$n.result
: > $res
if ! git apply OUT/$n/patch.diff; then echo "patch does not apply to current HEAD" | tee -a $res; exit 1; fi
if go build ./... && go test -vet=off -count=1 ./... > /tmp/seedv/$id-$n.tests 2>&1; then echo "tests_pass_with_change=true" >> $res; else echo "tests_pass_with_change=false" >> $res; fi
( bash OUT/$n/run_demo.sh > /tmp/seedv/$id-$n.demo1 2>&1 ); echo "demo_exit_with_change=$?" >> $res
git checkout -q -- . ; git clean -fdq -e OUT >/dev/null 2>&1
( bash OUT/$n/run_demo.sh > /tmp/seedv/$id-$n.demo0 2>&1 ); echo "demo_exit_without_change=$?" >> $res
cat $res
dst=/verif/seeded/$ID-$n
mkdir -p $dst; [ "$src" = "$dst" ] || cp -r $src/* $dst/
# run the checks against it
for chk in "$@"; do
  out=$(/verif/scripts/mutest.sh $dst/patch.diff $chk quick 2>&1 | tail -1)
  echo "check $chk: $out" | tee -a $res
done
cp $res $dst/verification.txt

#!/usr/bin/env python3
"""Compare the C05 Go reference models with this Python (CPython 3.11 in the sandbox).

usage: C05_DUMP=/tmp/c05model.jsonl go test -tags verif -run TestC05ModelDump ./internal/props
       python3 scripts/c05_crosscheck.py /tmp/c05model.jsonl
"""
import sys, json


def canon(o):
    if o is None:
        return "None"
    if o is True:
        return "True"
    if o is False:
        return "False"
    if isinstance(o, int):
        return str(o)
    if isinstance(o, str):
        return "'" + o + "'"
    if isinstance(o, tuple):
        return "(" + ",".join(canon(x) for x in o) + ")"
    if isinstance(o, list):
        return "[" + ",".join(canon(x) for x in o) + "]"
    if isinstance(o, frozenset):
        return "frozenset{" + ",".join(sorted(canon(x) for x in o)) + "}"
    if isinstance(o, bytes):
        return 'b"' + "".join("\\x%02x" % c for c in o) + '"'
    if isinstance(o, set):
        return "set{" + ",".join(sorted(canon(x) for x in o)) + "}"
    if isinstance(o, dict):
        return "{" + ",".join(canon(k) + ":" + canon(o[k]) for k in sorted(o)) + "}"
    if isinstance(o, BaseException):
        return "<exc " + type(o).__name__ + ">"
    return "<" + type(o).__name__ + ">"


class VH:
    def __init__(self):
        self.entries = []

    def log(self, *xs):
        self.entries.append(canon(xs[0]) if len(xs) == 1 else canon(tuple(xs)))


n = bad = skipped = 0
cache = {}
for line in open(sys.argv[1]):
    c = json.loads(line)
    if c.get("skip"):
        skipped += 1
        continue
    n += 1
    vh = VH()
    g = {"vh": vh}
    exec(compile(c["defs"], "<defs>", "exec"), g)
    exc = ""
    try:
        exec(compile(c["prog"], "<prog>", "exec"), g)
    except BaseException as e:
        exc = type(e).__name__
    ok = vh.entries == c["log"]
    if c["part"] == "b":
        ok = ok and exc == c["exc"] and (exc != "" or canon(g.get("r")) == c["res"])
    else:
        ok = ok and exc == ""
    if not ok:
        bad += 1
        if bad <= 20:
            print("MISMATCH", c.get("name", ""), json.dumps(c)[:600], "\n   python: log=", vh.entries, "exc=", exc, "r=", canon(g.get("r")) if c["part"] == "b" and not exc else "-")
print("compared", n, "skipped (PEP 479)", skipped, "mismatches", bad)
sys.exit(1 if bad else 0)

#!/usr/bin/env python3
"""Cross-check the C14 reference model against CPython.

  C14_DUMP=/tmp/c14.dump bin/vcheck --worker C14 --tier quick > /dev/null
  python3 scripts/c14_crosscheck.py /tmp/c14.dump

Every source-path group of the check is written to the dump as {pre, items:[{e: expression,
x: model's expectation, a: accepted alternative}]}; this script evaluates each expression in
CPython and compares with the model's expectation rendered the same way the harness renders it.
"""
import json, sys


def cstr(s):
    out = ["'"]
    for ch in s:
        o = ord(ch)
        if 0x20 <= o < 0x7f and ch not in "'\\":
            out.append(ch)
        else:
            out.append("\\u{%x}" % o)
    out.append("'")
    return "".join(out)


def canon(v):
    if isinstance(v, bool):
        return "True" if v else "False"
    if isinstance(v, int):
        return str(v)
    if isinstance(v, str):
        return cstr(v)
    if isinstance(v, list):
        return "[" + ",".join(canon(x) for x in v) + "]"
    if isinstance(v, tuple):
        return "(" + ",".join(canon(x) for x in v) + ")"
    raise TypeError(type(v))


def render(v):
    return type(v).__name__ + ":" + canon(v)


def main():
    n = bad = 0
    for line in open(sys.argv[1], encoding="utf-8"):
        g = json.loads(line)
        env = {}
        exec(g["pre"], env)
        for it in g["items"]:
            n += 1
            try:
                got = render(eval(it["e"], env))
            except Exception as e:
                got = "raises " + type(e).__name__
            if got != it["x"] and got != it.get("a", None):
                bad += 1
                if bad <= 40:
                    print("MISMATCH pre=%r expr=%r model=%s cpython=%s" % (g["pre"], it["e"], it["x"], got))
    print("checked %d expressions, %d mismatches" % (n, bad))
    return 1 if bad else 0


sys.exit(main())

#!/usr/bin/env python3
# Development aid for C16 (not part of the check): runs the programs dumped by
#   C16_DUMP=<dir> C16_DUMP_MOD=<m> bin/vcheck C16 ...
# under CPython with a tiny `vh` shim and compares the log with the model's expected log.
import sys, os, glob

def canon(o):
    if o is None: return 'None'
    if o is True: return 'True'
    if o is False: return 'False'
    if isinstance(o, int): return str(o)
    if isinstance(o, str): return "'" + o + "'"
    if isinstance(o, tuple): return '(' + ','.join(canon(x) for x in o) + ')'
    if isinstance(o, BaseException): return '<exc ' + type(o).__name__ + '>'
    if isinstance(o, type): return '<class ' + o.__name__ + '>'
    return '<' + type(o).__name__ + '>'

class VH:
    def __init__(self): self.entries = []
    def log(self, *xs):
        self.entries.append(canon(xs[0]) if len(xs) == 1 else canon(xs))

bad = 0
files = sorted(glob.glob(os.path.join(sys.argv[1], '*.py')))
for f in files:
    vh = VH()
    g = {'vh': vh}
    try:
        exec(compile(open(f).read(), f, 'exec'), g, g)
    except Exception as e:
        vh.entries.append('ABORT ' + repr(e))
    exp = open(f[:-3] + '.exp').read().split('\n')[:-1]
    if exp != vh.entries:
        bad += 1
        for i, (a, b) in enumerate(zip(exp, vh.entries)):
            if a != b:
                print(f, 'entry', i, 'model', a, 'cpython', b)
                break
        else:
            print(f, 'length', len(exp), len(vh.entries))
print('programs', len(files), 'disagreements', bad)

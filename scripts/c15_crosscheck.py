#!/usr/bin/env python3
"""Development aid for C15: cross-check the Go reference model against CPython.

  C15_DUMP=/tmp/c15.dump bin/vcheck C15 --tier quick --workers 1 > /dev/null 2>&1
  python3 scripts/c15_crosscheck.py /tmp/c15.dump

Every line of the dump is "<python expression>\t<expected>[\t<alternative>...]" as the model
predicts it; this script evaluates the expression with CPython and compares.
Floats are compared by bit pattern.
"""
import struct
import sys


def fb(x):
    if x != x:
        return "nan"
    return "0x%x" % struct.unpack("<Q", struct.pack("<d", x))[0]


def canon(v):
    if isinstance(v, bool):
        return "bool:" + str(v)
    if isinstance(v, int):
        return "int:%d" % v
    if isinstance(v, float):
        return "float:" + fb(v)
    if isinstance(v, complex):
        return "complex:(%s,%s)" % (fb(v.real), fb(v.imag))
    if isinstance(v, str):
        return "str:'%s'" % v
    if isinstance(v, tuple):
        return "tuple:(" + ",".join(canon(x) for x in v) + ")"
    return repr(v)


def main():
    sys.set_int_max_str_digits(0)
    n = bad = 0
    seen = set()
    for line in open(sys.argv[1], encoding="utf-8"):
        line = line.rstrip("\n")
        if not line or line in seen:
            continue
        seen.add(line)
        parts = line.split("\t")
        if len(parts) < 2:
            continue
        # literals like "\t1.5\n" inside string constants are escaped by the generator, so
        # the first TAB separates expression and expectation
        expr, exps = parts[0], parts[1:]
        try:
            got = canon(eval(expr, {}))
        except Exception as e:  # noqa
            got = "raises " + type(e).__name__
        n += 1
        ok = got in exps
        if not ok:
            for e in exps:
                if e.endswith(":<any>") and got.startswith(e[:-5]):
                    ok = True
        if not ok:
            bad += 1
            if bad <= 60:
                print("MISMATCH %s\n   model  %s\n   python %s" % (expr, exps, got))
    print("checked %d distinct cases, %d mismatches" % (n, bad))
    return 1 if bad else 0


if __name__ == "__main__":
    sys.exit(main())

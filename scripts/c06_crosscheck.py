#!/usr/bin/env python3
"""Development-time cross-check of the C06 model against CPython (3.11 is installed; 3.4 is the
reference, so only constructs on which 3.4 and 3.11 agree are decisive).

Usage:  C06_EXPORT=/tmp/c06exp bin/vcheck C06 --tier quick ; python3 scripts/c06_crosscheck.py /tmp/c06exp.*.jsonl

For every exported "accept" record (mode, text, expected dump in 3.4 ast.dump format): CPython must
parse the text and its tree, rendered in the 3.4 format, must equal the expected dump.
For every "reject" record: compile() must raise SyntaxError (records flagged v34 are only reported).
"""
import ast, json, sys, glob, collections, warnings

warnings.simplefilter("ignore")


def ident(s):
    return "None" if s is None else repr(s)


def fmt_num(v):
    if isinstance(v, complex):
        return repr(v)
    return repr(v)


def lst(xs, f):
    return "[" + ", ".join(f(x) for x in xs) + "]"


def expr(e):
    if e is None:
        return "None"
    t = type(e).__name__
    if t == "Constant":
        v = e.value
        if v is None or v is True or v is False:
            return "NameConstant(value=%r)" % (v,)
        if v is Ellipsis:
            return "Ellipsis()"
        if isinstance(v, str):
            return "Str(s=%r)" % v
        if isinstance(v, bytes):
            return "Bytes(s=%r)" % v
        return "Num(n=%s)" % fmt_num(v)
    if t == "BoolOp":
        return "BoolOp(op=%s(), values=%s)" % (type(e.op).__name__, lst(e.values, expr))
    if t == "BinOp":
        return "BinOp(left=%s, op=%s(), right=%s)" % (expr(e.left), type(e.op).__name__, expr(e.right))
    if t == "UnaryOp":
        return "UnaryOp(op=%s(), operand=%s)" % (type(e.op).__name__, expr(e.operand))
    if t == "Lambda":
        return "Lambda(args=%s, body=%s)" % (arguments(e.args), expr(e.body))
    if t == "IfExp":
        return "IfExp(test=%s, body=%s, orelse=%s)" % (expr(e.test), expr(e.body), expr(e.orelse))
    if t == "Dict":
        return "Dict(keys=%s, values=%s)" % (lst(e.keys, expr), lst(e.values, expr))
    if t == "Set":
        return "Set(elts=%s)" % lst(e.elts, expr)
    if t in ("ListComp", "SetComp", "GeneratorExp"):
        return "%s(elt=%s, generators=%s)" % (t, expr(e.elt), lst(e.generators, comp))
    if t == "DictComp":
        return "DictComp(key=%s, value=%s, generators=%s)" % (expr(e.key), expr(e.value), lst(e.generators, comp))
    if t == "Yield":
        return "Yield(value=%s)" % expr(e.value)
    if t == "YieldFrom":
        return "YieldFrom(value=%s)" % expr(e.value)
    if t == "Compare":
        return "Compare(left=%s, ops=%s, comparators=%s)" % (expr(e.left), lst(e.ops, lambda o: type(o).__name__ + "()"), lst(e.comparators, expr))
    if t == "Call":
        return "Call(func=%s, %s)" % (expr(e.func), callargs(e.args, e.keywords))
    if t == "Attribute":
        return "Attribute(value=%s, attr=%r, ctx=%s())" % (expr(e.value), e.attr, type(e.ctx).__name__)
    if t == "Subscript":
        return "Subscript(value=%s, slice=%s, ctx=%s())" % (expr(e.value), slc(e.slice, True), type(e.ctx).__name__)
    if t == "Starred":
        return "Starred(value=%s, ctx=%s())" % (expr(e.value), type(e.ctx).__name__)
    if t == "Name":
        return "Name(id=%r, ctx=%s())" % (e.id, type(e.ctx).__name__)
    if t == "List":
        return "List(elts=%s, ctx=%s())" % (lst(e.elts, expr), type(e.ctx).__name__)
    if t == "Tuple":
        return "Tuple(elts=%s, ctx=%s())" % (lst(e.elts, expr), type(e.ctx).__name__)
    raise ValueError("unsupported expr " + t)


def slc(s, top):
    t = type(s).__name__
    if t == "Slice":
        return "Slice(lower=%s, upper=%s, step=%s)" % (expr(s.lower), expr(s.upper), expr(s.step))
    if top and t == "Tuple" and any(type(x).__name__ == "Slice" for x in s.elts):
        return "ExtSlice(dims=%s)" % lst(s.elts, lambda d: slc(d, False))
    return "Index(value=%s)" % expr(s)


def callargs(args, keywords):
    pos = [a for a in args if type(a).__name__ != "Starred"]
    star = [a for a in args if type(a).__name__ == "Starred"]
    kws = [k for k in keywords if k.arg is not None]
    dstar = [k for k in keywords if k.arg is None]
    if len(star) > 1 or len(dstar) > 1:
        raise ValueError("not expressible in 3.4")
    # 3.4: positional arguments may not follow *args
    if star and args.index(star[0]) != len(args) - 1:
        raise ValueError("not expressible in 3.4")
    return "args=%s, keywords=%s, starargs=%s, kwargs=%s" % (
        lst(pos, expr), lst(kws, lambda k: "keyword(arg=%r, value=%s)" % (k.arg, expr(k.value))),
        expr(star[0].value) if star else "None", expr(dstar[0].value) if dstar else "None")


def comp(c):
    if c.is_async:
        raise ValueError("async")
    return "comprehension(target=%s, iter=%s, ifs=%s)" % (expr(c.target), expr(c.iter), lst(c.ifs, expr))


def arg(a):
    if a is None:
        return "None"
    return "arg(arg=%r, annotation=%s)" % (a.arg, expr(a.annotation))


def arguments(a):
    if a.posonlyargs:
        raise ValueError("posonly")
    return "arguments(args=%s, vararg=%s, kwonlyargs=%s, kw_defaults=%s, kwarg=%s, defaults=%s)" % (
        lst(a.args, arg), arg(a.vararg), lst(a.kwonlyargs, arg), lst(a.kw_defaults, expr), arg(a.kwarg), lst(a.defaults, expr))


def stmts(ss):
    return lst(ss, stmt)


def stmt(s):
    t = type(s).__name__
    if t == "FunctionDef":
        return "FunctionDef(name=%r, args=%s, body=%s, decorator_list=%s, returns=%s)" % (s.name, arguments(s.args), stmts(s.body), lst(s.decorator_list, expr), expr(s.returns))
    if t == "ClassDef":
        return "ClassDef(name=%r, bases=%s, body=%s, decorator_list=%s)" % (
            s.name, callargs(s.bases, s.keywords).replace("args=", "", 1), stmts(s.body), lst(s.decorator_list, expr))
    if t == "Return":
        return "Return(value=%s)" % expr(s.value)
    if t == "Delete":
        return "Delete(targets=%s)" % lst(s.targets, expr)
    if t == "Assign":
        return "Assign(targets=%s, value=%s)" % (lst(s.targets, expr), expr(s.value))
    if t == "AugAssign":
        return "AugAssign(target=%s, op=%s(), value=%s)" % (expr(s.target), type(s.op).__name__, expr(s.value))
    if t == "For":
        return "For(target=%s, iter=%s, body=%s, orelse=%s)" % (expr(s.target), expr(s.iter), stmts(s.body), stmts(s.orelse))
    if t == "While":
        return "While(test=%s, body=%s, orelse=%s)" % (expr(s.test), stmts(s.body), stmts(s.orelse))
    if t == "If":
        return "If(test=%s, body=%s, orelse=%s)" % (expr(s.test), stmts(s.body), stmts(s.orelse))
    if t == "With":
        return "With(items=%s, body=%s)" % (lst(s.items, lambda i: "withitem(context_expr=%s, optional_vars=%s)" % (expr(i.context_expr), expr(i.optional_vars))), stmts(s.body))
    if t == "Raise":
        return "Raise(exc=%s, cause=%s)" % (expr(s.exc), expr(s.cause))
    if t == "Try":
        return "Try(body=%s, handlers=%s, orelse=%s, finalbody=%s)" % (
            stmts(s.body), lst(s.handlers, lambda h: "ExceptHandler(type=%s, name=%s, body=%s)" % (expr(h.type), ident(h.name), stmts(h.body))), stmts(s.orelse), stmts(s.finalbody))
    if t == "Assert":
        return "Assert(test=%s, msg=%s)" % (expr(s.test), expr(s.msg))
    if t == "Import":
        return "Import(names=%s)" % lst(s.names, alias)
    if t == "ImportFrom":
        return "ImportFrom(module=%s, names=%s, level=%d)" % (ident(s.module), lst(s.names, alias), s.level)
    if t == "Global":
        return "Global(names=%s)" % lst(s.names, repr)
    if t == "Nonlocal":
        return "Nonlocal(names=%s)" % lst(s.names, repr)
    if t == "Expr":
        return "Expr(value=%s)" % expr(s.value)
    if t in ("Pass", "Break", "Continue"):
        return t + "()"
    raise ValueError("unsupported stmt " + t)


def alias(a):
    return "alias(name=%r, asname=%s)" % (a.name, ident(a.asname))


def dump34(tree):
    t = type(tree).__name__
    if t == "Module":
        return "Module(body=%s)" % stmts(tree.body)
    if t == "Interactive":
        return "Interactive(body=%s)" % stmts(tree.body)
    if t == "Expression":
        return "Expression(body=%s)" % expr(tree.body)
    raise ValueError(t)


def classdef_fix(d):
    # ClassDef(name, bases=..., keywords=..., starargs=..., kwargs=..., body, decorator_list): handled in stmt()
    return d


def main():
    files = []
    for a in sys.argv[1:]:
        files += glob.glob(a)
    bad = collections.Counter()
    examples = {}
    n = collections.Counter()
    seen = set()
    for fn in files:
        for line in open(fn, encoding="utf-8", errors="surrogateescape"):
            r = json.loads(line)
            key = (r["k"], r["mode"], r["text"])
            if key in seen:
                continue
            seen.add(key)
            text, mode = r["text"], r["mode"]
            if r["k"] == "accept":
                n["accept"] += 1
                try:
                    tree = ast.parse(text, mode=mode)
                    got = dump34(tree)
                except SyntaxError as e:
                    k = ("ACCEPT-REJECTED-BY-CPYTHON", r["part"])
                    bad[k] += 1
                    examples.setdefault(k, (text, str(e), r["dump"]))
                    continue
                except ValueError as e:
                    k = ("ACCEPT-NOT-CONVERTIBLE", str(e))
                    bad[k] += 1
                    examples.setdefault(k, (text, "", r["dump"]))
                    continue
                if got != r["dump"] and __import__("re").search(r"with\s*\(", text):
                    n["known-3.11-divergence: parenthesised with-items (PEP 617)"] += 1
                elif got != r["dump"]:
                    k = ("ACCEPT-TREE-DIFFERS", r["part"])
                    bad[k] += 1
                    examples.setdefault(k, (text, got, r["dump"]))
            else:
                n["reject"] += 1
                try:
                    compile(text, "<s>", mode)
                except (SyntaxError, ValueError):
                    if r.get("v34"):
                        n["v34-also-rejected-by-3.11"] += 1
                    continue
                except Exception as e:
                    k = ("REJECT-OTHER-ERROR", type(e).__name__)
                    bad[k] += 1
                    examples.setdefault(k, (text, "", ""))
                    continue
                if r.get("v34"):
                    n["v34-accepted-by-3.11"] += 1
                    continue
                k = ("REJECT-ACCEPTED-BY-CPYTHON", r["inj"], r["with"])
                bad[k] += 1
                examples.setdefault(k, (text, "", ""))
    print("checked", dict(n))
    for k, v in sorted(bad.items(), key=lambda kv: -kv[1]):
        t, g, e = examples[k]
        print(v, k)
        print("    text:", repr(t)[:300])
        if g:
            print("    cpython:", g[:400])
        if e:
            print("    model:  ", e[:400])
    print("DISAGREEMENTS:", sum(bad.values()))


main()

#!/bin/bash
# usage (inside a `vp run --with-repo -- /verif/scripts/thorough_bg.sh Cxx ...` snapshot): runs the thorough tier of
# the given checks against the snapshot of /repo, with a 700 s exploration budget each; development aid only,
# what it prints is not evidence (evidence comes from scripts/check.sh run in /verif against /repo).
sed -i "s#=> /repo#=> $VP_RUN_REPO#" go.mod
export VERIF_DIR=$PWD VERIF_REPO=$VP_RUN_REPO
for p in "$@"; do
  s=$(date +%s)
  scripts/check.sh $p --tier thorough --budget 700 > thor-$p.out 2>&1; rc=$?
  echo "$p rc=$rc $(( $(date +%s) - s ))s $(grep -a "^$p tier" thor-$p.out | cut -c1-260) $(grep -ac '^VIOLATION' thor-$p.out) violations"
  grep -a "deviation sig\|caps:" thor-$p.out | head -5 | cut -c1-300
done

#!/opt/veriftools/pyvenv/bin/python
import json, jsonschema, glob, sys
ok = True
jsonschema.validate(json.load(open('/verif/MANIFEST.json')), json.load(open('/root/.vp/MANIFEST.schema.json')))
print('manifest valid')
es = json.load(open('/root/.vp/EVIDENCE.schema.json'))
for f in sorted(glob.glob('/verif/evidence/*.json')):
    try:
        jsonschema.validate(json.load(open(f)), es); print(f, 'valid')
    except Exception as e:
        ok = False; print(f, 'INVALID', str(e)[:300])
sys.exit(0 if ok else 1)

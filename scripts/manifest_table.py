HOOK_COMMITS = []
NOT_APPLICABLE = {}
NOTES = ("Every check is a bounded exhaustive enumeration (stateless exploration of the real implementation or explicit-state search "
         "against a Go reference model); nothing is sampled. Genuine defects that are recorded rather than repaired are in known_findings.json.")
ENGINES = [
 {"name": "enumerator", "path": "internal/core + internal/props", "serves_properties": [],
  "kind_free_text": "coordinator + 16 worker processes; each property enumerates a closed bounded space by index and compares the real pipeline with a reference model; crash/hang attribution by shared progress word"},
]
check("C11", "exhaustive enumeration of bounded token/byte sequences and file mutations through the real compile pipeline",
      "All fragment sequences up to a length bound over closed alphabets, in all three modes, plus all single token/byte mutations of every repository .py file and size-limit programs, are compiled by the real pipeline; each result must be a code object or a located SyntaxError. Exhaustive within the printed bounds.",
      "totality over all byte strings is approximated by the closed alphabets and length bounds; hang detection is a 150 s no-progress watchdog",
      "DESIGN.md section 4 C11")
check("C01", "exhaustive enumeration of bounded expression and assignment trees whose operands log their own evaluation, compared step by step with a reference evaluator; all operator pairs/triples against a reference recursive-descent parser",
      "Every operator form at depth 1 over 7 leaf values with the full operator alphabet, every combination of composite operands (falsy, truthy, raising instance of every form) in every child position at depth 2 (thorough: depth 3), all assignment forms (chained, tuple, starred, subscript/attribute/slice targets on logging containers, 12 augmented operators x 4 target kinds, del) and all unparenthesised operator pairs (thorough: triples) with all value assignments over {0,1,2}; the real pipeline's operand log and value/exception type must equal the reference evaluator's.",
      "cases whose value semantics are outside the small value model (float results of **, string formatting, identity of non-singletons) are skipped and counted; dict-display key/value order accepts both the reference order and CPython 3.4's; user-defined operator overloading is not in the alphabet (operands are logging calls)",
      "DESIGN.md section 4 C01")
check("C02", "exhaustive enumeration of bounded statement trees (every leaf at every position) executed on the real pipeline against a reference structural operational semantics",
      "Every statement tree within a node budget and nesting depth over loops with else, if, try with 8 handler layouts x else x finally, with (3 __exit__ behaviours), nested call frames and the leaves log / raise E / bare raise / return / break / continue is compiled and run; the path log (incl. __enter__/__exit__ exactly once), compile-time rejection, uncaught exception type, return value and traceback lines must equal the reference semantics.",
      "bounded tree size (quick 4-5 nodes, thorough 5-7); built-in exception hierarchy only; extra traceback entries at bare-raise lines accepted (3.4 vs later versions)",
      "DESIGN.md section 4 C02")
check("C07", "exhaustive enumeration of a boundary operand lattice against a math/big reference model, via Go API (both representations) and compiled source",
      "All ordered pairs (triples for pow) of a boundary lattice around 0, 2^7..2^192, floor(2^31.5), IntMax/IntMin with +-3 neighbours x every integer operator, shift, power, unary form and text conversion, executed through the Go API with operands in machine-word and forced arbitrary-precision representation and as compiled source text, compared value-for-value with math/big. Exhaustive over the lattice.",
      "math/big is trusted; operands outside the lattice are not covered (the property's 'seeded random operands' are replaced by a larger exhaustive lattice)",
      "DESIGN.md section 4 C07")
check("C09", "stateless model checking of the real context under a controlled scheduler (iterative preemption bounding), monitor over the event trace",
      "Every multiset of 2-4 goroutine programs over {RunCode, ModuleInit, ResolveAndCompile, Close, wait-for-Done} is run on the real stdlib.context under a cooperative scheduler whose scheduling points are generated from the current source (every lifecycle statement, every sync operation, inside the running Python code); ALL schedules within the preemption bound (quick: 2; thorough: up to 4) are executed and a monitor checks: no panic, no deadlock, Close returns only after admitted executions finished and callbacks ran once, Done not early, no admission after callbacks, requests after Close fail with an ordinary error.",
      "sequentially consistent interleavings only; memory-model effects are seen only by the auxiliary free-running -race pass of the same bodies (a sampler, reported separately as non-deciding); the vsync shim models sync.Mutex/WaitGroup/Once",
      "DESIGN.md section 4 C09", engine="explorer")
check("C13", "exhaustive enumeration of every sequence type x length x (start, stop, step) / index over a closed index alphabet against a first-principles slice model, via Go API and compiled source",
      "str, list, tuple, range and bytes of every length 0..4 (thorough 0..6) x every (start, stop, step) and every index over {None, -9..9, +-(2^63-1), +-2^63, +-2^64}: slicing, item get/set/del, list slice assignment (all replacement kinds) and deletion, concatenation, repetition, len, membership, comparisons, iteration; result, exception type, operand-not-corrupted and result-not-aliased are compared with a Go-slice model of Python's sequence semantics.",
      "elements are small distinct ints / code points; operations a type does not provide at all are recorded one finding per (type, operation); model cross-checked against CPython 3.11 on 632k cases during development",
      "DESIGN.md section 4 C13; reports/REPORT-C13.md")
check("C14", "exhaustive enumeration of all strings up to a length bound over a mixed-width alphabet x every string operation and argument tuple against a []rune reference model; repr/eval round trip",
      "Every string of length <= 3 (thorough <= 5) over {a, b, U+E9, U+20AC, U+1F600, quote, double quote, backslash, newline, NUL, space} plus boundary code points x len/index/slice/iteration/in/find/count/startswith/endswith/split/join/strip/replace/upper/lower/compare/repeat/concat/ord/chr with every small argument tuple, through the Go API and compiled source, compared with a []rune model; eval(repr(x)) == x for every such string, bytes, lattice ints and floats and nested tuples/lists.",
      "strings longer than 5, surrogates/invalid UTF-8 and % formatting are not covered; float repr text is judged by C15; model cross-checked against CPython 3.11 on 11M expressions during development",
      "DESIGN.md section 4 C14; reports/REPORT-C14.md")
check("C18", "stateless exploration of the compiler's internal nondeterminism (every controlled map-iteration order; all interleavings of two concurrent compilations at function-entry granularity) with a differential oracle",
      "For a corpus of generated scope-heavy programs plus every .py file in the repository: every iteration order of every range-over-map in symtable/compile/vm within the deviation bound, all ordered pairs compiled back to back, all interleavings of two concurrent py.Compile calls within the preemption bound, and a before/after snapshot of every package-level variable of parser/symtable/compile/ast; every code object (recursive structural dump) must equal the first compilation.",
      "orders for maps with more than 4 keys are reversal/rotations/adjacent transpositions, not all n!; interleavings are sequentially consistent at function-entry granularity; the -race pass (16 goroutines) is auxiliary and non-deciding",
      "DESIGN.md section 4 C18", engine="explorer")
ENGINES.append({"name": "explorer", "path": "explore + vsync + verifrt + cmd/instr", "serves_properties": ["C09", "C18"],
  "kind_free_text": "choice-sequence DFS explorer with a cooperative goroutine scheduler (preemption/deviation bounded, optional visited-state pruning); sync shim; build-overlay instrumenter deriving yield points and controlled map-iteration order from the current sources"})
ENGINES[0]["serves_properties"] = sorted(k for k in CHECKS.keys() if CHECKS[k]["engine"] == "enumerator")

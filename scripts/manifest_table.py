HOOK_COMMITS = []
NOT_APPLICABLE = {}
NOTES = ("Every check is a bounded exhaustive enumeration (stateless exploration of the real implementation or explicit-state search "
         "against a Go reference model); nothing is sampled. Genuine defects that are recorded rather than repaired are in known_findings.json.")
ENGINES = [
 {"name": "enumerator", "path": "internal/core + internal/props", "serves_properties": [],
  "kind_free_text": "coordinator + 16 worker processes; each property enumerates a closed bounded space by index and compares the real pipeline with a reference model; crash/hang attribution by shared progress word"},
]
check("C11", "exhaustive enumeration of bounded token/byte sequences and file mutations through the real compile pipeline",
      "All fragment sequences up to a length bound over closed alphabets, in all three modes, plus all single token/byte mutations of every repository .py file and size-limit programs, are compiled by the real pipeline; each result must be a code object or a located SyntaxError. Exhaustive within the printed bounds.",
      "totality over all byte strings is approximated by the closed alphabets and length bounds; hang detection is a 150 s no-progress watchdog",
      "DESIGN.md section 4 C11")
check("C07", "exhaustive enumeration of a boundary operand lattice against a math/big reference model, via Go API (both representations) and compiled source",
      "All ordered pairs (triples for pow) of a boundary lattice around 0, 2^7..2^192, floor(2^31.5), IntMax/IntMin with +-3 neighbours x every integer operator, shift, power, unary form and text conversion, executed through the Go API with operands in machine-word and forced arbitrary-precision representation and as compiled source text, compared value-for-value with math/big. Exhaustive over the lattice.",
      "math/big is trusted; operands outside the lattice are not covered (the property's 'seeded random operands' are replaced by a larger exhaustive lattice)",
      "DESIGN.md section 4 C07")
ENGINES[0]["serves_properties"] = sorted(CHECKS.keys())

#!/bin/bash
# usage: scripts/mutest.sh <patch.diff> <Cxx> [tier] [--tests]
# Applies a property-breaking change to /repo, runs the check, reverts. Prints CAUGHT/MISSED.
set -u
patch=$(readlink -f "$1"); prop=$2; tier=${3:-quick}; runtests=${4:-}
cd /repo
if ! git diff --quiet; then echo "REFUSING: /repo has uncommitted changes"; exit 2; fi
if ! git apply "$patch"; then echo "PATCH DOES NOT APPLY: $patch"; exit 2; fi
trap 'git -C /repo checkout -- . ' EXIT
. /verif/scripts/env.sh
if [ "$runtests" = "--tests" ]; then
  if go build ./... && go test -vet=off -count=1 ./... 2>&1 | grep -v "no test files" | grep -q "^FAIL\|^---"; then echo "REPO TESTS FAIL WITH MUTANT"; else echo "repo tests pass with mutant"; fi
fi
out=$(/verif/scripts/check.sh $prop --tier $tier 2>&1); rc=$?
echo "$out" | grep -a "VIOLATION\|^$prop tier" | head -5 | cut -c1-250
if [ $rc -eq 1 ] && echo "$out" | grep -q "^VIOLATION property=$prop"; then echo "CAUGHT $(basename $patch) by $prop/$tier"; else echo "MISSED $(basename $patch) by $prop/$tier (exit $rc)"; fi

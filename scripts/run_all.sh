#!/bin/bash
# usage: scripts/run_all.sh [tier] [props...] : runs every registered check, prints one status line each
tier=${1:-quick}; shift
props=${@:-$(python3 -c "import json;print(' '.join(c['property_id'] for c in json.load(open('/verif/MANIFEST.json'))['checks']))")}
for p in $props; do
  s=$(date +%s)
  /verif/scripts/check.sh $p --tier $tier > /tmp/runall-$p.out 2>&1; rc=$?
  e=$(( $(date +%s) - s ))
  echo "$p rc=$rc ${e}s $(grep -a "^$p tier" /tmp/runall-$p.out | cut -c1-200) $(grep -ac '^VIOLATION' /tmp/runall-$p.out) violations"
done

#!/usr/bin/env python3
"""Compare the C13 Go reference model with this Python (CPython 3.11 in the sandbox).

usage: C13_DUMP=/tmp/c13model.txt go test -tags verif -run TestC13ModelDump ./internal/props
       python3 scripts/c13_crosscheck.py /tmp/c13model.txt
"""
import sys
n = bad = 0
for line in open(sys.argv[1]):
    kind, lit, key, repl, want = line.rstrip("\n").split("|")
    l = eval(lit)
    k = eval(key)
    try:
        if kind == "G":
            got = l[k]
        elif kind == "I":
            got = l[k]
        elif kind == "D":
            del l[k]
            got = l
        else:
            l[k] = eval(repl)
            got = l
        got = repr(got).replace(" ", "")
    except Exception as e:
        got = type(e).__name__
    n += 1
    if got != want:
        bad += 1
        if bad <= 20:
            print("MISMATCH", line.strip(), "python:", got)
print("compared", n, "mismatches", bad)
sys.exit(1 if bad else 0)

#!/usr/bin/env python3
"""Cross-check of the C17 reference model against CPython: replays the programs dumped by
C17_DUMP=<prefix> bin/vcheck C17 ... with a vh shim and compares logs with the model's."""
import sys, json, glob

class VH:
    def __init__(self): self.entries = []
    def canon(self, o):
        if o is None: return "None"
        if o is True: return "True"
        if o is False: return "False"
        if isinstance(o, int): return str(o)
        if isinstance(o, str): return "'" + o + "'"
        if isinstance(o, tuple): return "(" + ",".join(self.canon(x) for x in o) + ")"
        if isinstance(o, list): return "[" + ",".join(self.canon(x) for x in o) + "]"
        if isinstance(o, dict): return "{" + ",".join(self.canon(k) + ":" + self.canon(o[k]) for k in sorted(o)) + "}"
        if isinstance(o, set): return "set{" + ",".join(sorted(self.canon(x) for x in o)) + "}"
        if isinstance(o, BaseException): return "<exc " + type(o).__name__ + ">"
        return "<" + type(o).__name__ + ">"
    def log(self, *xs):
        self.entries.append(self.canon(xs[0]) if len(xs) == 1 else self.canon(tuple(xs)))
    def same(self, a, b): return a is b

import types
m = types.ModuleType("vh17"); m.same = lambda a, b: a is b
sys.modules["vh17"] = m
bad = n = 0
seen = set()
for fn in sorted(glob.glob(sys.argv[1] + ".*")):
    for line in open(fn):
        c = json.loads(line)
        if c["probe"]: continue
        n += 1
        vh = VH()
        try:
            exec(c["src"], {"vh": vh})
        except BaseException as e:
            vh.entries.append("UNCAUGHT " + type(e).__name__)
        exp = c["pre"] + c["exp"]
        if vh.entries != exp:
            # CPython is one of the accepted behaviours, so the alternatives do not count
            bad += 1
            for i, (a, b) in enumerate(zip(vh.entries + ["<end>"], exp + ["<end>"])):
                if a != b:
                    break
            key = c["src"].split("try:\n")[-1].split("\nexcept")[0]
            if bad <= int(sys.argv[2]) if len(sys.argv) > 2 else 15:
                print("MODEL MISMATCH\n" + c["src"] + "\n  entry", i, "\n  cpython:", a, "\n  model:  ", b)
print("programs", n, "model mismatches", bad)
sys.exit(1 if bad else 0)

#!/bin/bash
# usage: scripts/check.sh <Cxx> [--tier quick|thorough] [--replay file] [...]
# Rebuilds the checker against /repo's current working tree (hooks on), then runs it.
set -u
# VERIF_DIR / VERIF_REPO exist for development copies only; registered commands use /verif and /repo
V=${VERIF_DIR:-/verif}
R=${VERIF_REPO:-/repo}
cd "$V"
. scripts/env.sh
mkdir -p bin evidence
prop=$1; shift
case "$prop" in
  C09|C18|C03|C08|C12) mode=ov ;;
  *) mode=plain ;;
esac
if [ "$mode" = ov ]; then
  ovdir=$(mktemp -d "${TMPDIR:-/tmp}/verif-ov.XXXXXX")
  trap 'rm -rf "$ovdir"' EXIT
  if ! out=$(go run ./cmd/instr -repo "$R" -out "$ovdir" 2>&1); then
    echo "INSTRUMENTATION FAILED"; echo "$out" | head -20; exit 2
  fi
  if ! out=$(go build -tags verif,verifov -overlay "$ovdir/overlay.json" -o bin/vcheck-ov ./cmd/vcheck 2>&1); then
    echo "BUILD FAILED (overlay build of /repo's working tree)"; echo "$out" | head -40; exit 2
  fi
  rm -rf "$ovdir"; trap - EXIT
  # auxiliary free-running pass under the race detector (non-deciding)
  if ! out=$(go build -race -tags verif -o bin/vrace ./cmd/vrace 2>&1); then
    echo "BUILD FAILED (-race build)"; echo "$out" | head -40; exit 2
  fi
  exec bin/vcheck-ov "$prop" "$@"
else
  if ! out=$(go build -tags verif -o bin/vcheck ./cmd/vcheck 2>&1); then
    echo "BUILD FAILED (the tree under /repo does not compile with -tags verif)"; echo "$out" | head -40; exit 2
  fi
  exec bin/vcheck "$prop" "$@"
fi

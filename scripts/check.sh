#!/bin/bash
# usage: scripts/check.sh <Cxx> [--tier quick|thorough] [...]
# Rebuilds the checker against /repo's current working tree (hooks on), then runs it.
set -u
cd /verif
. scripts/env.sh
mkdir -p bin evidence
prop=$1; shift
if ! out=$(go build -tags verif -o bin/vcheck ./cmd/vcheck 2>&1); then
  echo "BUILD FAILED (the tree under /repo does not compile with -tags verif)"
  echo "$out" | head -40
  exit 2
fi
exec bin/vcheck "$prop" "$@"

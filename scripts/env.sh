# sourced by every script: offline Go environment
export GOFLAGS=-mod=mod GOPROXY=off GOSUMDB=off GOTOOLCHAIN=local
export GOCACHE=${GOCACHE:-/root/.cache/go-build}

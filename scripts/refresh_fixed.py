#!/usr/bin/env python3
"""Keeps known_findings.json 'fixed' entries pointing at commits reachable from /repo HEAD (matched by subject)."""
import json, subprocess
def git(*a): return subprocess.run(['git','-C','/repo',*a],capture_output=True,text=True).stdout
f=json.load(open('/verif/known_findings.json'))
reach={}
for l in git('log','--format=%h\t%s').splitlines():
    h,s=l.split('\t',1); reach.setdefault(s,h)
n=0; missing=[]
for x in f['fixed']:
    subj=x.get('subject') or git('log','-1','--format=%s',x['commit']).strip()
    if subj:
        x['subject']=subj
        if subj in reach:
            if reach[subj]!=x['commit'][:len(reach[subj])]: n+=1
            x['commit']=reach[subj]
        else: missing.append((x['property'],x['commit'],subj))
    else: missing.append((x['property'],x['commit'],'?'))
json.dump(f,open('/verif/known_findings.json','w'),indent=1)
print('updated',n,'missing',missing)

#!/usr/bin/env python3
"""Generates /verif/MANIFEST.json from the table below (single source of truth)."""
import json, sys, os
V = "/verif"
props = [json.loads(l) for l in open(f"{V}/properties.jsonl")]
ids = [p["id"] for p in props]

# id -> (category, technique, text, note, design_ref, engine)
CHECKS = {}
def check(id, technique, text, note, ref, engine="enumerator", category="model_checking"):
    CHECKS[id] = dict(technique=technique, text=text, note=note, ref=ref, engine=engine, category=category)

exec(open(f"{V}/scripts/manifest_table.py").read())

checks = []
for i in ids:
    if i not in CHECKS: continue
    c = CHECKS[i]
    checks.append({
        "property_id": i,
        "quick_cmd": f"scripts/check.sh {i} --tier quick",
        "thorough_cmd": f"scripts/check.sh {i} --tier thorough",
        "evidence_file": f"/verif/evidence/{i}.json",
        "replay_cmd_template": f"scripts/check.sh {i} --replay {{path}}",
        "engine": c["engine"],
        "level_claimed": {"category": c["category"], "text": c["text"], "design_ref": c["ref"]},
        "level_note": c["note"],
        "technique": c["technique"],
    })
na = [{"property_id": i, "reason": NOT_APPLICABLE.get(i, "check not built yet in this session; see DESIGN.md section 4 for the planned bounded exhaustive check")} for i in ids if i not in CHECKS]
m = {
 "version": 1,
 "setup_cmd": "scripts/setup.sh",
 "hooks": {
   "guard": "verif",
   "enable": "go build -tags verif (scripts/check.sh rebuilds cmd/vcheck against /repo's working tree with the tag on; instrumentation that is not committed is applied with go build -overlay from the current sources)",
   "baseline_off_cmd": "cd /repo && GOFLAGS=-mod=mod GOPROXY=off GOSUMDB=off GOTOOLCHAIN=local go test -vet=off -count=1 ./...",
   "source_commits": HOOK_COMMITS,
   "add_only": True,
 },
 "engines": ENGINES,
 "checks": checks,
 "notes": NOTES,
 "not_applicable": na,
}
json.dump(m, open(f"{V}/MANIFEST.json", "w"), indent=1)
print("checks:", [c["property_id"] for c in checks], "not_applicable:", [n["property_id"] for n in na])

// vrace: the auxiliary, explicitly non-deciding free-running pass. The same harness
// bodies that the cooperative scheduler explores are run on real goroutines in a binary
// built with -race, because hand-offs of a cooperative scheduler are happens-before
// edges that blind the race detector. A data race report is a violation; silence is
// only "no race observed in N runs".
package main

import (
	"flag"
	"fmt"
	"os"
	"time"

	"verif/internal/racepass"
)

func main() {
	if len(os.Args) < 2 {
		fmt.Fprintln(os.Stderr, "usage: vrace <Cxx> [--seconds n]")
		os.Exit(2)
	}
	prop := os.Args[1]
	fs := flag.NewFlagSet("vrace", flag.ExitOnError)
	secs := fs.Int("seconds", 10, "")
	fs.Parse(os.Args[2:])
	f := racepass.Passes[prop]
	if f == nil {
		fmt.Fprintf(os.Stderr, "no race pass for %s\n", prop)
		os.Exit(2)
	}
	runs, distinct := f(time.Now().Add(time.Duration(*secs) * time.Second))
	fmt.Printf("RACE-PASS property=%s runs=%d configurations=%d\n", prop, runs, distinct)
}

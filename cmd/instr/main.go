// instr writes a `go build -overlay` description that instruments the CURRENT sources of
// /repo (nothing is committed there):
//
//	(1) stdlib/stdlib.go: "sync" -> verif/vsync; a Yield before every innermost
//	    statement of a *context method that touches a lifecycle field or calls a
//	    *Busy method; plus an added file exposing the private lifecycle state.
//	(2) symtable, compile, vm: every `for ... := range <map>` iterates in an order chosen
//	    by verifrt.Order (the explorer's order choice point).
//
// usage: instr -repo /repo -out <dir>   (writes <dir>/overlay.json and the rewritten files)
package main

import (
	"bytes"
	"encoding/json"
	"flag"
	"fmt"
	"go/ast"
	"go/format"
	"go/importer"
	"go/parser"
	"go/printer"
	"go/token"
	"go/types"
	"os"
	"path/filepath"
	"sort"
	"strings"
)

func main() {
	repo := flag.String("repo", "/repo", "")
	out := flag.String("out", "", "")
	flag.Parse()
	if *out == "" {
		fmt.Fprintln(os.Stderr, "instr: -out required")
		os.Exit(2)
	}
	os.MkdirAll(*out, 0o755)
	overlay := map[string]string{}
	n1, err := instrLifecycle(*repo, *out, overlay)
	if err != nil {
		fmt.Fprintln(os.Stderr, "instr lifecycle:", err)
		os.Exit(1)
	}
	n2 := 0
	for _, pkg := range []string{"parser", "symtable", "compile", "vm"} {
		n, err := instrMapOrder(*repo, pkg, *out, overlay)
		if err != nil {
			fmt.Fprintln(os.Stderr, "instr maporder:", pkg, err)
			os.Exit(1)
		}
		n2 += n
	}
	n3 := 0
	for _, pkg := range []string{"parser", "symtable", "compile", "ast"} {
		n, err := genGlobals(*repo, pkg, *out, overlay)
		if err != nil {
			fmt.Fprintln(os.Stderr, "instr globals:", pkg, err)
			os.Exit(1)
		}
		n3 += n
	}
	fmt.Printf("instr: %d package-level variables exposed for snapshots\n", n3)
	for _, pkg := range []string{"parser", "symtable", "compile"} {
		fmt.Printf("instr: %s: package-level variables written at run time: %v\n", pkg, writtenNames[pkg])
	}
	b, _ := json.MarshalIndent(map[string]interface{}{"Replace": overlay}, "", " ")
	os.WriteFile(filepath.Join(*out, "overlay.json"), b, 0o644)
	fmt.Printf("instr: %d lifecycle yield points, %d controlled map loops\n", n1, n2)
}

// ---------- (1) lifecycle ----------

func instrLifecycle(repo, out string, overlay map[string]string) (int, error) {
	path := filepath.Join(repo, "stdlib", "stdlib.go")
	fset := token.NewFileSet()
	f, err := parser.ParseFile(fset, path, nil, parser.ParseComments)
	if err != nil {
		return 0, err
	}
	// fields of struct `context`
	type fld struct{ name, typ string }
	var fields []fld
	ast.Inspect(f, func(n ast.Node) bool {
		ts, ok := n.(*ast.TypeSpec)
		if !ok || ts.Name.Name != "context" {
			return true
		}
		st, ok := ts.Type.(*ast.StructType)
		if !ok {
			return true
		}
		for _, fl := range st.Fields.List {
			var b bytes.Buffer
			format.Node(&b, fset, fl.Type)
			for _, nm := range fl.Names {
				fields = append(fields, fld{nm.Name, b.String()})
			}
		}
		return false
	})
	if len(fields) == 0 {
		return 0, fmt.Errorf("struct context not found in stdlib.go")
	}
	life := map[string]bool{}
	for _, fl := range fields {
		if fl.name != "store" && fl.name != "opts" {
			life[fl.name] = true
		}
	}
	// rewrite the sync import
	for _, im := range f.Imports {
		if im.Path.Value == `"sync"` {
			im.Path.Value = `"verif/vsync"`
			im.Name = ast.NewIdent("sync")
		}
	}
	count := 0
	for _, d := range f.Decls {
		fd, ok := d.(*ast.FuncDecl)
		if !ok || fd.Recv == nil || fd.Body == nil || len(fd.Recv.List) != 1 {
			continue
		}
		star, ok := fd.Recv.List[0].Type.(*ast.StarExpr)
		if !ok {
			continue
		}
		if id, ok := star.X.(*ast.Ident); !ok || id.Name != "context" {
			continue
		}
		if len(fd.Recv.List[0].Names) != 1 {
			continue
		}
		recv := fd.Recv.List[0].Names[0].Name
		count += instrBlock(fset, fd.Body, recv, life, fd.Name.Name)
	}
	var buf bytes.Buffer
	f.Comments = nil
	if err := format.Node(&buf, fset, f); err != nil {
		return 0, err
	}
	dst := filepath.Join(out, "stdlib_stdlib.go")
	os.WriteFile(dst, buf.Bytes(), 0o644)
	overlay[path] = dst

	// exported view of the private lifecycle state
	var b strings.Builder
	b.WriteString("package stdlib\n\nimport (\n\t\"fmt\"\n\t\"github.com/go-python/gpython/py\"\n\t\"verif/verifrt\"\n)\n\nfunc init() { verifrt.Instrumented = true }\n\n")
	b.WriteString("// VerifState renders the private lifecycle state of a context (overlay-only file).\n")
	b.WriteString("func VerifState(c py.Context) string {\n\tctx, ok := c.(*context)\n\tif !ok {\n\t\treturn \"?\"\n\t}\n\ts := \"\"\n")
	for _, fl := range fields {
		if !life[fl.name] {
			continue
		}
		switch fl.typ {
		case "bool", "int", "int32", "int64", "uint32", "uint64":
			fmt.Fprintf(&b, "\ts += fmt.Sprintf(\"%s=%%v \", ctx.%s)\n", fl.name, fl.name)
		case "sync.WaitGroup":
			fmt.Fprintf(&b, "\ts += fmt.Sprintf(\"%s=%%d \", ctx.%s.Count())\n", fl.name, fl.name)
		case "sync.Once":
			fmt.Fprintf(&b, "\ts += fmt.Sprintf(\"%s=%%d \", ctx.%s.State())\n", fl.name, fl.name)
		case "sync.Mutex":
			fmt.Fprintf(&b, "\ts += fmt.Sprintf(\"%s=%%v \", ctx.%s.Held())\n", fl.name, fl.name)
		case "sync.RWMutex":
			fmt.Fprintf(&b, "\ts += fmt.Sprintf(\"%s=%%s \", ctx.%s.State())\n", fl.name, fl.name)
		case "chan struct{}":
			fmt.Fprintf(&b, "\tselect {\n\tcase <-ctx.%s:\n\t\ts += \"%s=closed \"\n\tdefault:\n\t\ts += \"%s=open \"\n\t}\n", fl.name, fl.name, fl.name)
		default:
			fmt.Fprintf(&b, "\ts += \"%s=<%s> \"\n", fl.name, fl.typ)
		}
	}
	b.WriteString("\treturn s\n}\n")
	exp := filepath.Join(out, "stdlib_verif_export.go")
	os.WriteFile(exp, []byte(b.String()), 0o644)
	overlay[filepath.Join(repo, "stdlib", "verif_export_ov.go")] = exp
	return count, nil
}

func mentions(n ast.Node, recv string, life map[string]bool) bool {
	found := false
	ast.Inspect(n, func(x ast.Node) bool {
		if found {
			return false
		}
		if _, ok := x.(*ast.FuncLit); ok {
			return false // statements inside closures are instrumented on their own
		}
		if se, ok := x.(*ast.SelectorExpr); ok {
			if se.Sel.Name == "OnContextClosed" {
				found = true
				return false
			}
			if id, ok := se.X.(*ast.Ident); ok && id.Name == recv {
				if life[se.Sel.Name] || strings.HasSuffix(se.Sel.Name, "Busy") {
					found = true
					return false
				}
			}
		}
		return true
	})
	return found
}

func yieldStmt(site string) ast.Stmt {
	return &ast.ExprStmt{X: &ast.CallExpr{
		Fun:  &ast.SelectorExpr{X: ast.NewIdent("sync"), Sel: ast.NewIdent("Yield")},
		Args: []ast.Expr{&ast.BasicLit{Kind: token.STRING, Value: fmt.Sprintf("%q", site)}},
	}}
}

func instrBlock(fset *token.FileSet, blk *ast.BlockStmt, recv string, life map[string]bool, fn string) int {
	count := 0
	var out []ast.Stmt
	for _, s := range blk.List {
		// recurse into nested blocks and closures first
		count += instrNested(fset, s, recv, life, fn)
		header := headerOf(s)
		if header != nil && mentions(header, recv, life) {
			site := fmt.Sprintf("%s:L%d", fn, fset.Position(s.Pos()).Line)
			out = append(out, yieldStmt(site))
			count++
		}
		out = append(out, s)
	}
	blk.List = out
	return count
}

// headerOf returns the part of a statement that executes at the statement's own
// position (for compound statements: init/cond, not the bodies).
func headerOf(s ast.Stmt) ast.Node {
	switch x := s.(type) {
	case *ast.IfStmt:
		return &ast.BlockStmt{List: stmtsOf(x.Init, &ast.ExprStmt{X: x.Cond})}
	case *ast.ForStmt:
		var l []ast.Stmt
		l = append(l, stmtsOf(x.Init)...)
		if x.Cond != nil {
			l = append(l, &ast.ExprStmt{X: x.Cond})
		}
		return &ast.BlockStmt{List: l}
	case *ast.RangeStmt:
		return &ast.ExprStmt{X: x.X}
	case *ast.SwitchStmt:
		var l []ast.Stmt
		l = append(l, stmtsOf(x.Init)...)
		if x.Tag != nil {
			l = append(l, &ast.ExprStmt{X: x.Tag})
		}
		return &ast.BlockStmt{List: l}
	case *ast.BlockStmt, *ast.SelectStmt, *ast.TypeSwitchStmt, *ast.LabeledStmt:
		return nil
	}
	return s
}

func stmtsOf(ss ...ast.Stmt) []ast.Stmt {
	var out []ast.Stmt
	for _, s := range ss {
		if s != nil {
			out = append(out, s)
		}
	}
	return out
}

func instrNested(fset *token.FileSet, s ast.Stmt, recv string, life map[string]bool, fn string) int {
	count := 0
	switch x := s.(type) {
	case *ast.BlockStmt:
		count += instrBlock(fset, x, recv, life, fn)
	case *ast.IfStmt:
		count += instrBlock(fset, x.Body, recv, life, fn)
		if x.Else != nil {
			if eb, ok := x.Else.(*ast.BlockStmt); ok {
				count += instrBlock(fset, eb, recv, life, fn)
			} else {
				count += instrNested(fset, x.Else, recv, life, fn)
			}
		}
	case *ast.ForStmt:
		count += instrBlock(fset, x.Body, recv, life, fn)
	case *ast.RangeStmt:
		count += instrBlock(fset, x.Body, recv, life, fn)
	case *ast.SwitchStmt:
		for _, c := range x.Body.List {
			cc := c.(*ast.CaseClause)
			b := &ast.BlockStmt{List: cc.Body}
			count += instrBlock(fset, b, recv, life, fn)
			cc.Body = b.List
		}
	case *ast.TypeSwitchStmt:
		for _, c := range x.Body.List {
			cc := c.(*ast.CaseClause)
			b := &ast.BlockStmt{List: cc.Body}
			count += instrBlock(fset, b, recv, life, fn)
			cc.Body = b.List
		}
	case *ast.SelectStmt:
		for _, c := range x.Body.List {
			cc := c.(*ast.CommClause)
			b := &ast.BlockStmt{List: cc.Body}
			count += instrBlock(fset, b, recv, life, fn)
			cc.Body = b.List
		}
	case *ast.LabeledStmt:
		count += instrNested(fset, x.Stmt, recv, life, fn)
	}
	// closures anywhere inside the statement's own expressions
	ast.Inspect(s, func(n ast.Node) bool {
		switch y := n.(type) {
		case *ast.BlockStmt:
			if n != ast.Node(s) {
				// nested blocks of compound statements were handled above; closures below
			}
		case *ast.FuncLit:
			if !handled[y] {
				handled[y] = true
				count += instrBlock(fset, y.Body, recv, life, fn+".func")
			}
			return false
		}
		return true
	})
	return count
}

var handled = map[*ast.FuncLit]bool{}

// ---------- (2) map iteration order ----------

func instrMapOrder(repo, pkg, out string, overlay map[string]string) (int, error) {
	dir := filepath.Join(repo, pkg)
	fset := token.NewFileSet()
	pkgs, err := parser.ParseDir(fset, dir, func(fi os.FileInfo) bool {
		return !strings.HasSuffix(fi.Name(), "_test.go")
	}, parser.ParseComments)
	if err != nil {
		return 0, err
	}
	p := pkgs[pkg]
	if p == nil {
		return 0, fmt.Errorf("package %s not found", pkg)
	}
	var files []*ast.File
	var names []string
	for n := range p.Files {
		names = append(names, n)
	}
	sort.Strings(names)
	for _, n := range names {
		// honour build constraints crudely: skip files guarded by tags we do not set
		src, _ := os.ReadFile(n)
		if bytes.Contains(src, []byte("//go:build ")) && !bytes.Contains(src, []byte("//go:build verif")) && !bytes.Contains(src, []byte("//go:build !")) {
			continue
		}
		if bytes.Contains(src, []byte("//go:build !verif")) {
			continue
		}
		files = append(files, p.Files[n])
	}
	conf := types.Config{Importer: importer.ForCompiler(fset, "source", nil), Error: func(err error) {}}
	info := &types.Info{Types: map[ast.Expr]types.TypeAndValue{}, Uses: map[*ast.Ident]types.Object{}, Defs: map[*ast.Ident]types.Object{}}
	tpkg, _ := conf.Check("github.com/go-python/gpython/"+pkg, fset, files, info)
	var written map[types.Object]bool
	if accessPkgs[pkg] && tpkg != nil {
		written = writtenVars(tpkg, files, info)
		var ns []string
		for o := range written {
			ns = append(ns, o.Name())
		}
		sort.Strings(ns)
		writtenNames[pkg] = ns
	}
	count := 0
	for _, f := range files {
		changed := 0
		ast.Inspect(f, func(n ast.Node) bool {
			blk, ok := n.(*ast.BlockStmt)
			if !ok {
				return true
			}
			for i, s := range blk.List {
				if ls, ok := s.(*ast.LabeledStmt); ok {
					s = ls.Stmt
				}
				rs, ok := s.(*ast.RangeStmt)
				if !ok {
					continue
				}
				tv, ok := info.Types[rs.X]
				if !ok {
					continue
				}
				if _, ok := tv.Type.Underlying().(*types.Map); !ok {
					continue
				}
				site := fmt.Sprintf("%s/%s:L%d", pkg, filepath.Base(fset.PositionFor(rs.Pos(), false).Filename), fset.PositionFor(rs.Pos(), false).Line)
				blk.List[i] = rewriteRange(blk.List[i], rs, site, changed)
				changed++
			}
			return true
		})
		// ranges that are the direct body of case clauses etc. live in BlockStmt-less lists
		ast.Inspect(f, func(n ast.Node) bool {
			var list *[]ast.Stmt
			switch x := n.(type) {
			case *ast.CaseClause:
				list = &x.Body
			case *ast.CommClause:
				list = &x.Body
			}
			if list == nil {
				return true
			}
			for i, s := range *list {
				rs, ok := s.(*ast.RangeStmt)
				if !ok {
					continue
				}
				tv, ok := info.Types[rs.X]
				if !ok {
					continue
				}
				if _, ok := tv.Type.Underlying().(*types.Map); !ok {
					continue
				}
				site := fmt.Sprintf("%s/%s:L%d", pkg, filepath.Base(fset.PositionFor(rs.Pos(), false).Filename), fset.PositionFor(rs.Pos(), false).Line)
				(*list)[i] = rewriteRange(s, rs, site, changed)
				changed++
			}
			return true
		})
		entries := 0
		if accessPkgs[pkg] {
			// the compiler's own locks and once-guards must be the scheduler's: a real sync.Once or
			// Mutex held across a scheduling point would block the only running goroutine for good
			for _, im := range f.Imports {
				if im.Path.Value == `"sync"` {
					im.Path.Value = `"verif/vsync"`
					im.Name = ast.NewIdent("sync")
					entries++
				}
			}
		}
		if len(written) > 0 {
			entries += instrAccesses(f, pkg, info, written)
		}
		if entryPkgs[pkg] {
			entries += instrEntries(f, pkg)
		}
		if changed == 0 && entries == 0 {
			continue
		}
		count += changed
		addImport(f, "verif/verifrt")
		var buf bytes.Buffer
		f.Comments = nil // inserted nodes have no positions; free-floating comments would be misplaced
		if err := printer.Fprint(&buf, fset, f); err != nil {
			return 0, err
		}
		name := fset.File(f.Pos()).Name()
		dst := filepath.Join(out, pkg+"_"+filepath.Base(name))
		os.WriteFile(dst, buf.Bytes(), 0o644)
		overlay[name] = dst
	}
	return count, nil
}

// genGlobals adds <pkg>/verif_globals_ov.go with VerifGlobals(), a rendering of every
// package-level variable (derived from the current source, so a newly introduced cache
// or scratch variable is covered automatically).
func genGlobals(repo, pkg, out string, overlay map[string]string) (int, error) {
	dir := filepath.Join(repo, pkg)
	fset := token.NewFileSet()
	pkgs, err := parser.ParseDir(fset, dir, func(fi os.FileInfo) bool { return !strings.HasSuffix(fi.Name(), "_test.go") }, 0)
	if err != nil {
		return 0, err
	}
	p := pkgs[pkg]
	if p == nil {
		return 0, fmt.Errorf("package %s not found", pkg)
	}
	var names []string
	var fnames []string
	for fn := range p.Files {
		fnames = append(fnames, fn)
	}
	sort.Strings(fnames)
	for _, fn := range fnames {
		for _, d := range p.Files[fn].Decls {
			gd, ok := d.(*ast.GenDecl)
			if !ok || gd.Tok != token.VAR {
				continue
			}
			for _, sp := range gd.Specs {
				vs := sp.(*ast.ValueSpec)
				for _, nm := range vs.Names {
					if nm.Name != "_" {
						names = append(names, nm.Name)
					}
				}
			}
		}
	}
	var b strings.Builder
	fmt.Fprintf(&b, "package %s\n\nimport \"fmt\"\n\n// VerifGlobals renders every package-level variable (overlay-only file).\nfunc VerifGlobals() map[string]string {\n\tm := map[string]string{}\n", pkg)
	for _, n := range names {
		fmt.Fprintf(&b, "\tm[%q] = fmt.Sprintf(\"%%#v\", %s)\n", n, n)
	}
	b.WriteString("\t_ = fmt.Sprint\n\treturn m\n}\n")
	// the package-level variables that are written at run time (see accessPkgs): their addresses,
	// so that an exploration can put them back to their start-of-process values before every execution
	b.WriteString("\n// VerifRuntimeVars returns the names and addresses of the package-level variables some function writes at run time.\nfunc VerifRuntimeVars() ([]string, []interface{}) {\n\tvar ns []string\n\tvar ps []interface{}\n")
	for _, n := range writtenNames[pkg] {
		fmt.Fprintf(&b, "\tns = append(ns, %q)\n\tps = append(ps, &%s)\n", pkg+"."+n, n)
	}
	b.WriteString("\treturn ns, ps\n}\n")
	dst := filepath.Join(out, pkg+"_verif_globals.go")
	os.WriteFile(dst, []byte(b.String()), 0o644)
	overlay[filepath.Join(dir, "verif_globals_ov.go")] = dst
	return len(names), nil
}

// ---------- (4) accesses of package-level variables that are written at run time ----------

// accessPkgs: packages in which every statement that reads or writes a package-level variable
// which some function other than init() writes (assigns, increments, takes the address of,
// deletes from / copies into, slices as an array, or calls a method of when it is a sync or
// atomic value) is preceded by a scheduling point, so that concurrent compilations are
// interleaved at the granularity of their accesses to shared state. On a tree whose compiler
// keeps no run-time state the set is empty and nothing is inserted.
var accessPkgs = map[string]bool{"parser": true, "symtable": true, "compile": true}

var writtenNames = map[string][]string{}

func rootObj(e ast.Expr, info *types.Info) types.Object {
	for {
		switch x := e.(type) {
		case *ast.Ident:
			return info.Uses[x]
		case *ast.ParenExpr:
			e = x.X
		case *ast.IndexExpr:
			e = x.X
		case *ast.SliceExpr:
			e = x.X
		case *ast.StarExpr:
			e = x.X
		case *ast.TypeAssertExpr:
			e = x.X
		case *ast.SelectorExpr:
			if id, ok := x.X.(*ast.Ident); ok {
				if _, isPkg := info.Uses[id].(*types.PkgName); isPkg {
					return nil // a variable of another package
				}
			}
			e = x.X
		default:
			return nil
		}
	}
}

func isPkgVar(o types.Object, tpkg *types.Package) bool {
	v, ok := o.(*types.Var)
	return ok && !v.IsField() && v.Parent() == tpkg.Scope()
}

func syncTyped(t types.Type) bool {
	if p, ok := t.(*types.Pointer); ok {
		t = p.Elem()
	}
	if n, ok := t.(*types.Named); ok && n.Obj().Pkg() != nil {
		pp := n.Obj().Pkg().Path()
		return pp == "sync" || pp == "sync/atomic"
	}
	return false
}

// isSetter: an exported function whose whole body assigns its parameters to variables (a
// configuration switch such as parser.SetDebug, which no compilation calls).
func isSetter(fd *ast.FuncDecl) bool {
	if fd.Recv != nil || !fd.Name.IsExported() || len(fd.Body.List) != 1 || fd.Type.Params == nil {
		return false
	}
	as, ok := fd.Body.List[0].(*ast.AssignStmt)
	if !ok || as.Tok != token.ASSIGN {
		return false
	}
	params := map[string]bool{}
	for _, p := range fd.Type.Params.List {
		for _, n := range p.Names {
			params[n.Name] = true
		}
	}
	for _, r := range as.Rhs {
		id, ok := r.(*ast.Ident)
		if !ok || !params[id.Name] {
			return false
		}
	}
	return true
}

func writtenVars(tpkg *types.Package, files []*ast.File, info *types.Info) map[types.Object]bool {
	w := map[types.Object]bool{}
	mark := func(e ast.Expr) {
		if o := rootObj(e, info); o != nil && isPkgVar(o, tpkg) {
			w[o] = true
		}
	}
	for _, f := range files {
		for _, d := range f.Decls {
			fd, ok := d.(*ast.FuncDecl)
			if !ok || fd.Body == nil || (fd.Recv == nil && fd.Name.Name == "init") || isSetter(fd) {
				continue
			}
			ast.Inspect(fd.Body, func(n ast.Node) bool {
				switch x := n.(type) {
				case *ast.AssignStmt:
					for _, l := range x.Lhs {
						mark(l)
					}
				case *ast.IncDecStmt:
					mark(x.X)
				case *ast.RangeStmt:
					if x.Tok == token.ASSIGN {
						if x.Key != nil {
							mark(x.Key)
						}
						if x.Value != nil {
							mark(x.Value)
						}
					}
				case *ast.UnaryExpr:
					if x.Op == token.AND {
						mark(x.X)
					}
				case *ast.SliceExpr:
					if tv, ok := info.Types[x.X]; ok {
						if _, isArr := tv.Type.Underlying().(*types.Array); isArr {
							mark(x.X)
						}
					}
				case *ast.CallExpr:
					if id, ok := x.Fun.(*ast.Ident); ok && len(x.Args) > 0 {
						if _, isB := info.Uses[id].(*types.Builtin); isB && (id.Name == "delete" || id.Name == "copy" || id.Name == "clear") {
							mark(x.Args[0])
						}
					}
					if sel, ok := x.Fun.(*ast.SelectorExpr); ok {
						if tv, ok := info.Types[sel.X]; ok && syncTyped(tv.Type) {
							mark(sel.X)
						}
					}
				}
				return true
			})
		}
	}
	return w
}

// mentioned returns the name of a run-time-written package-level variable that the nodes mention
// (closure bodies excluded: their statements are instrumented on their own).
func mentioned(info *types.Info, written map[types.Object]bool, nodes ...ast.Node) string {
	found := ""
	for _, n := range nodes {
		if n == nil || found != "" {
			continue
		}
		// a typed nil inside the interface
		switch v := n.(type) {
		case ast.Expr:
			if v == nil {
				continue
			}
		case ast.Stmt:
			if v == nil {
				continue
			}
		}
		ast.Inspect(n, func(m ast.Node) bool {
			if found != "" {
				return false
			}
			switch y := m.(type) {
			case *ast.FuncLit:
				return false
			case *ast.Ident:
				if o := info.Uses[y]; o != nil && written[o] {
					found = o.Name()
				}
			}
			return true
		})
	}
	return found
}

func accessHeader(s ast.Stmt, info *types.Info, written map[types.Object]bool) string {
	switch x := s.(type) {
	case *ast.LabeledStmt:
		return accessHeader(x.Stmt, info, written)
	case *ast.IfStmt:
		var init ast.Node
		if x.Init != nil {
			init = x.Init
		}
		return mentioned(info, written, init, x.Cond)
	case *ast.ForStmt:
		var a, b, c ast.Node
		if x.Init != nil {
			a = x.Init
		}
		if x.Cond != nil {
			b = x.Cond
		}
		if x.Post != nil {
			c = x.Post
		}
		return mentioned(info, written, a, b, c)
	case *ast.RangeStmt:
		return mentioned(info, written, x.X)
	case *ast.SwitchStmt:
		var a, b ast.Node
		if x.Init != nil {
			a = x.Init
		}
		if x.Tag != nil {
			b = x.Tag
		}
		return mentioned(info, written, a, b)
	case *ast.TypeSwitchStmt:
		var a ast.Node
		if x.Init != nil {
			a = x.Init
		}
		return mentioned(info, written, a, x.Assign)
	case *ast.BlockStmt, *ast.SelectStmt, *ast.EmptyStmt, *ast.BranchStmt:
		return ""
	case *ast.DeclStmt, *ast.AssignStmt, *ast.IncDecStmt, *ast.ExprStmt, *ast.ReturnStmt, *ast.SendStmt, *ast.GoStmt, *ast.DeferStmt:
		return mentioned(info, written, s)
	}
	return ""
}

func instrAccesses(f *ast.File, pkg string, info *types.Info, written map[types.Object]bool) int {
	n := 0
	fix := func(list []ast.Stmt) []ast.Stmt {
		var out []ast.Stmt
		for _, s := range list {
			if v := accessHeader(s, info, written); v != "" {
				out = append(out, &ast.ExprStmt{X: &ast.CallExpr{
					Fun:  &ast.SelectorExpr{X: ast.NewIdent("verifrt"), Sel: ast.NewIdent("Enter")},
					Args: []ast.Expr{&ast.BasicLit{Kind: token.STRING, Value: fmt.Sprintf("%q", "access:"+pkg+"."+v)}},
				}})
				n++
			}
			out = append(out, s)
		}
		return out
	}
	for _, d := range f.Decls {
		fd, ok := d.(*ast.FuncDecl)
		if !ok || fd.Body == nil || (fd.Recv == nil && fd.Name.Name == "init") {
			continue
		}
		ast.Inspect(fd.Body, func(m ast.Node) bool {
			switch x := m.(type) {
			case *ast.BlockStmt:
				x.List = fix(x.List)
			case *ast.CaseClause:
				x.Body = fix(x.Body)
			case *ast.CommClause:
				x.Body = fix(x.Body)
			}
			return true
		})
	}
	return n
}

// packages whose every function gets a verifrt.Enter (scheduling point for concurrent
// compilation / execution) and, for the VM's opcode handlers, a verifrt.Step.
var entryPkgs = map[string]bool{"parser": true, "symtable": true, "compile": true, "vm": true}

func instrEntries(f *ast.File, pkg string) int {
	n := 0
	for _, d := range f.Decls {
		fd, ok := d.(*ast.FuncDecl)
		if !ok || fd.Body == nil || fd.Name.Name == "init" {
			continue
		}
		name := fd.Name.Name
		if fd.Recv != nil && len(fd.Recv.List) == 1 {
			var b bytes.Buffer
			format.Node(&b, token.NewFileSet(), fd.Recv.List[0].Type)
			name = "(" + b.String() + ")." + name
		}
		var pre []ast.Stmt
		// opcode handlers: func do_X(vm *Vm, arg int32) error
		if pkg == "vm" && fd.Recv == nil && strings.HasPrefix(fd.Name.Name, "do_") && fd.Type.Params != nil && len(fd.Type.Params.List) == 2 {
			p0 := fd.Type.Params.List[0]
			if len(p0.Names) == 1 && p0.Names[0].Name != "_" {
				vmName := p0.Names[0].Name
				pre = append(pre, &ast.ExprStmt{X: &ast.CallExpr{
					Fun: &ast.SelectorExpr{X: ast.NewIdent("verifrt"), Sel: ast.NewIdent("Step")},
					Args: []ast.Expr{
						&ast.SelectorExpr{X: ast.NewIdent(vmName), Sel: ast.NewIdent("frame")},
						&ast.BasicLit{Kind: token.STRING, Value: fmt.Sprintf("%q", strings.TrimPrefix(fd.Name.Name, "do_"))},
					}}})
			}
		}
		pre = append(pre, &ast.ExprStmt{X: &ast.CallExpr{
			Fun:  &ast.SelectorExpr{X: ast.NewIdent("verifrt"), Sel: ast.NewIdent("Enter")},
			Args: []ast.Expr{&ast.BasicLit{Kind: token.STRING, Value: fmt.Sprintf("%q", pkg+"."+name)}},
		}})
		fd.Body.List = append(pre, fd.Body.List...)
		n++
	}
	return n
}

func addImport(f *ast.File, path string) {
	spec := &ast.ImportSpec{Path: &ast.BasicLit{Kind: token.STRING, Value: fmt.Sprintf("%q", path)}}
	for _, d := range f.Decls {
		if gd, ok := d.(*ast.GenDecl); ok && gd.Tok == token.IMPORT {
			gd.Specs = append(gd.Specs, spec)
			if !gd.Lparen.IsValid() {
				gd.Lparen = gd.Pos()
				gd.Rparen = gd.End()
			}
			return
		}
	}
	f.Decls = append([]ast.Decl{&ast.GenDecl{Tok: token.IMPORT, Specs: []ast.Spec{spec}}}, f.Decls...)
}

// rewriteRange turns
//
//	for k, v := range m { body }
//
// into
//
//	for _, k := range verifrt.Order(m, site) { v, ok := m[k]; if !ok { continue }; body }
//
// (entries deleted during the loop are skipped, as Go does; entries added during the
// loop are not visited, which Go permits).
func rewriteRange(orig ast.Stmt, rs *ast.RangeStmt, site string, n int) ast.Stmt {
	keyName := fmt.Sprintf("verifK%d", n)
	var keyIdent ast.Expr = ast.NewIdent(keyName)
	userKey := rs.Key
	tok := rs.Tok
	if tok == token.ILLEGAL {
		tok = token.DEFINE
	}
	call := &ast.CallExpr{
		Fun:  &ast.SelectorExpr{X: ast.NewIdent("verifrt"), Sel: ast.NewIdent("Order")},
		Args: []ast.Expr{rs.X, &ast.BasicLit{Kind: token.STRING, Value: fmt.Sprintf("%q", site)}},
	}
	var pre []ast.Stmt
	// presence test
	okName := fmt.Sprintf("verifOk%d", n)
	var valLHS ast.Expr = ast.NewIdent("_")
	valTok := token.DEFINE
	if rs.Value != nil {
		if id, ok := rs.Value.(*ast.Ident); !ok || id.Name != "_" {
			valLHS = rs.Value
			if rs.Tok == token.ASSIGN {
				// assigning to existing variables: use a temp
				tmp := ast.NewIdent(fmt.Sprintf("verifV%d", n))
				pre = append(pre, &ast.AssignStmt{Lhs: []ast.Expr{tmp, ast.NewIdent(okName)}, Tok: token.DEFINE,
					Rhs: []ast.Expr{&ast.IndexExpr{X: rs.X, Index: keyIdent}}})
				pre = append(pre, &ast.IfStmt{Cond: &ast.UnaryExpr{Op: token.NOT, X: ast.NewIdent(okName)}, Body: &ast.BlockStmt{List: []ast.Stmt{&ast.BranchStmt{Tok: token.CONTINUE}}}})
				pre = append(pre, &ast.AssignStmt{Lhs: []ast.Expr{valLHS}, Tok: token.ASSIGN, Rhs: []ast.Expr{tmp}})
				valLHS = nil
			}
		}
	}
	if valLHS != nil {
		pre = append(pre, &ast.AssignStmt{Lhs: []ast.Expr{valLHS, ast.NewIdent(okName)}, Tok: valTok,
			Rhs: []ast.Expr{&ast.IndexExpr{X: rs.X, Index: keyIdent}}})
		pre = append(pre, &ast.IfStmt{Cond: &ast.UnaryExpr{Op: token.NOT, X: ast.NewIdent(okName)}, Body: &ast.BlockStmt{List: []ast.Stmt{&ast.BranchStmt{Tok: token.CONTINUE}}}})
		if id, ok := valLHS.(*ast.Ident); ok && id.Name != "_" {
			// silence "declared and not used" when the body ignores it
			pre = append(pre, &ast.AssignStmt{Lhs: []ast.Expr{ast.NewIdent("_")}, Tok: token.ASSIGN, Rhs: []ast.Expr{ast.NewIdent(id.Name)}})
		}
	}
	// bind the user's key variable
	if userKey != nil {
		if id, ok := userKey.(*ast.Ident); !ok || id.Name != "_" {
			if rs.Tok == token.ASSIGN {
				pre = append([]ast.Stmt{&ast.AssignStmt{Lhs: []ast.Expr{userKey}, Tok: token.ASSIGN, Rhs: []ast.Expr{keyIdent}}}, pre...)
			} else {
				pre = append([]ast.Stmt{
					&ast.AssignStmt{Lhs: []ast.Expr{userKey}, Tok: token.DEFINE, Rhs: []ast.Expr{keyIdent}},
					&ast.AssignStmt{Lhs: []ast.Expr{ast.NewIdent("_")}, Tok: token.ASSIGN, Rhs: []ast.Expr{userKey}},
				}, pre...)
			}
		}
	}
	body := &ast.BlockStmt{List: append(pre, rs.Body.List...)}
	nrs := &ast.RangeStmt{Key: ast.NewIdent("_"), Value: ast.NewIdent(keyName), Tok: token.DEFINE, X: call, Body: body}
	if ls, ok := orig.(*ast.LabeledStmt); ok {
		ls.Stmt = nrs
		return ls
	}
	return nrs
}

// vcheck: one binary for every check. `vcheck <Cxx> --tier quick|thorough`.
package main

import (
	"flag"
	"fmt"
	"os"
	"strconv"

	"verif/internal/core"
	_ "verif/internal/props"
)

func main() {
	if len(os.Args) >= 3 && os.Args[1] == "--worker" {
		os.Exit(core.WorkerMain(os.Args[2:]))
	}
	if len(os.Args) < 2 {
		fmt.Fprintf(os.Stderr, "usage: vcheck <property> [--tier quick|thorough] [--replay file]\nproperties: %v\n", core.IDs())
		os.Exit(2)
	}
	prop := os.Args[1]
	fs := flag.NewFlagSet("vcheck", flag.ExitOnError)
	tier := fs.String("tier", envOr("VERIF_TIER", "quick"), "")
	replay := fs.String("replay", "", "")
	workers := fs.Int("workers", 0, "")
	budget := fs.Int("budget", 0, "exploration budget in seconds")
	propose := fs.Bool("propose-findings", false, "")
	only := fs.Int64("only", -1, "")
	fs.Parse(os.Args[2:])
	seed, _ := strconv.ParseInt(os.Getenv("VERIF_SEED"), 10, 64)
	opt := core.Options{Prop: prop, Tier: *tier, Seed: seed, Workers: *workers, BudgetS: *budget, Propose: *propose, OnlyIndex: *only}
	if *replay != "" {
		os.Exit(core.ReplayFile(*replay, opt))
	}
	os.Exit(core.Coordinate(opt))
}

func envOr(k, d string) string {
	if v := os.Getenv(k); v != "" {
		return v
	}
	return d
}
